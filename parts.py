"""Per-property table of check parts, budgets, non-trivial rules and assumptions (DESIGN.md §5)."""

# kind: rapid (default) | exhaustive | plain
# quick/thorough: checks = total rapid cases over all shards; shards = processes; timeout = seconds per shard
PARTS = {
    "C11": [
        {"test": "TestVfC11Split",
         "quick": {"checks": 8000, "shards": 4, "timeout": 300},
         "thorough": {"checks": 600000, "shards": 16, "timeout": 1500}},
    ],
}

LEVEL = {}  # default: exploration

RULES = {
    "C11": "rapid-generated RPCs (0-12 messages, subscriptions, all six control kinds, extension / partial / "
           "test-extension fields, element sizes from 0 to 1.5x the limit) and limits 8..4096; oracle = round trip "
           "by canonical content over the fragments of RPC.split + size rule + no empty fragment + input not mutated. "
           "Non-trivial: the RPC is larger than the limit and holds >= 2 field kinds; distinct = distinct case JSON.",
}

ASSUMPTIONS = {
    "*": ["Go 1.25 runtime, testing/synctest virtual clock and pgregory.net/rapid v1.3.0 are trusted",
          "the harness is compiled into package pubsub from /repo's working tree (overlay), so it sees the code as it is now"],
    "C11": ["generated protobuf Marshal/Size in pb/ are trusted (used by the oracle to canonicalise content)"],
}

HOOK_COMMITS = []

META = {
    "C11": {
        "text": "Generated-input search (rapid, thousands to hundreds of thousands of structured RPC x limit cases) against a "
                "round-trip oracle over canonical content; finds any loss, duplication, reordering, oversize or empty fragment "
                "reachable by the generator; does not prove absence.",
        "note": "Trusts the generated protobuf Size/Marshal code, rapid and the Go runtime; explores RPC shapes up to 12 messages, "
                "8 subscriptions, ~25 ids per control entry and limits 8..4096.",
        "technique": "property-based testing (rapid) with round-trip oracle on RPC.split; sendRPC drop accounting on a direct-driven node",
    },
}
