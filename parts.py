"""Per-property table of check parts, budgets, non-trivial rules and assumptions (DESIGN.md §5)."""

# kind: rapid (default) | exhaustive | plain
# quick/thorough: checks = total rapid cases over all shards; shards = processes; timeout = seconds per shard
PARTS = {
    "C01": [
        {"test": "TestVfC01Delivery",
         "quick": {"checks": 1920, "shards": 16, "timeout": 900},
         "thorough": {"checks": 32000, "shards": 16, "timeout": 3400}},
    ],
    "C16": [
        {"test": "TestVfC16Blacklist",
         "quick": {"checks": 3600, "shards": 12, "timeout": 900},
         "thorough": {"checks": 40000, "shards": 16, "timeout": 3000}},
    ],
    "C05": [
        {"test": "TestVfC05Converge",
         "quick": {"checks": 3600, "shards": 12, "timeout": 900},
         "thorough": {"checks": 32000, "shards": 16, "timeout": 3000}},
        {"test": "TestVfC05Announce",
         "quick": {"checks": 16000, "shards": 8, "timeout": 600},
         "thorough": {"checks": 900000, "shards": 16, "timeout": 2400}},
    ],
    "C14": [
        {"test": "TestVfC14Net", "replay_runs": 5,
         "quick": {"checks": 1080, "shards": 12, "timeout": 900},
         "thorough": {"checks": 16000, "shards": 16, "timeout": 3000}},
        {"test": "TestVfC14Shutdown", "replay_runs": 20,
         "quick": {"checks": 24000, "shards": 8, "timeout": 900, "gomaxprocs": [16, 2, 16, 4]},
         "thorough": {"checks": 600000, "shards": 16, "timeout": 3000, "gomaxprocs": [16, 2, 1, 4]}},
    ],
    "C12": [
        {"test": "FuzzVfC12", "kind": "fuzz",
         "quick": {"shards": 1, "timeout": 300},
         "thorough": {"shards": 1, "timeout": 900, "fuzztime": "180s"}},
        {"test": "TestVfC12Wire", "inflight": True,
         "quick": {"checks": 1800, "shards": 12, "timeout": 900},
         "thorough": {"checks": 32000, "shards": 16, "timeout": 3000}},
        {"test": "TestVfC12Hostile", "inflight": True, "stall_is_violation": True,
         "quick": {"checks": 6000, "shards": 8, "timeout": 900},
         "thorough": {"checks": 200000, "shards": 16, "timeout": 3000}},
    ],
    "C13": [
        {"test": "TestVfC13Reclaim",
         "quick": {"checks": 6000, "shards": 8, "timeout": 900},
         "thorough": {"checks": 300000, "shards": 16, "timeout": 3000}},
        {"test": "TestVfC13Net",
         "quick": {"checks": 1440, "shards": 12, "timeout": 900},
         "thorough": {"checks": 24000, "shards": 16, "timeout": 3000}},
    ],
    "C03": [
        {"test": "TestVfC03Signing",
         "quick": {"checks": 12000, "shards": 8, "timeout": 600},
         "thorough": {"checks": 900000, "shards": 16, "timeout": 2400}},
    ],
    "C04": [
        {"test": "TestVfC04Verdicts",
         "quick": {"checks": 12000, "shards": 8, "timeout": 600},
         "thorough": {"checks": 800000, "shards": 16, "timeout": 2400}},
    ],
    "C19": [
        {"test": "TestVfC19Trace",
         "quick": {"checks": 12000, "shards": 8, "timeout": 600},
         "thorough": {"checks": 800000, "shards": 16, "timeout": 2400}},
    ],
    "C18": [
        {"test": "TestVfC18Seq", "kind": "exhaustive",
         "quick": {"shards": 4, "timeout": 300, "params": {"maxlen": 7}},
         "thorough": {"shards": 16, "timeout": 1500, "params": {"maxlen": 10}}},
        {"test": "TestVfC18Forced",
         "quick": {"checks": 600, "shards": 2, "timeout": 300},
         "thorough": {"checks": 80000, "shards": 8, "timeout": 1500}},
        {"test": "TestVfC18Node",
         "quick": {"checks": 8000, "shards": 4, "timeout": 600, "gomaxprocs": [16, 2, 16, 1]},
         "thorough": {"checks": 900000, "shards": 16, "timeout": 2400, "gomaxprocs": [16, 2, 4, 1]}},
    ],
    "C06": [
        {"test": "TestVfC06Recipients",
         "quick": {"checks": 16000, "shards": 8, "timeout": 600},
         "thorough": {"checks": 900000, "shards": 16, "timeout": 2400}},
    ],
    "C09": [
        {"test": "TestVfC09Thresholds",
         "quick": {"checks": 16000, "shards": 8, "timeout": 600},
         "thorough": {"checks": 1200000, "shards": 16, "timeout": 2400}},
    ],
    "C08": [
        {"test": "TestVfC08Backoff",
         "quick": {"checks": 24000, "shards": 8, "timeout": 600},
         "thorough": {"checks": 1200000, "shards": 16, "timeout": 2400}},
    ],
    "C07": [
        {"test": "TestVfC07Mesh",
         "quick": {"checks": 24000, "shards": 8, "timeout": 600},
         "thorough": {"checks": 800000, "shards": 16, "timeout": 2400}},
    ],
    "C17": [
        {"test": "TestVfC17aMcache",
         "quick": {"checks": 20000, "shards": 4, "timeout": 300},
         "thorough": {"checks": 1600000, "shards": 16, "timeout": 1500}},
        {"test": "TestVfC17bGossip",
         "quick": {"checks": 16000, "shards": 8, "timeout": 600},
         "thorough": {"checks": 900000, "shards": 16, "timeout": 2400}},
    ],
    "C02": [
        {"test": "TestVfC02aTimeCache",
         "quick": {"checks": 20000, "shards": 4, "timeout": 300},
         "thorough": {"checks": 1600000, "shards": 16, "timeout": 1500}},
        {"test": "TestVfC02bPipeline",
         "quick": {"checks": 12000, "shards": 8, "timeout": 600},
         "thorough": {"checks": 600000, "shards": 16, "timeout": 2400}},
        {"test": "TestVfC02cBatch",
         "quick": {"checks": 8000, "shards": 4, "timeout": 600},
         "thorough": {"checks": 800000, "shards": 16, "timeout": 2400}},
    ],
    "C20": [
        {"test": "TestVfC20bNode", "inflight": True, "stall_is_violation": True,
         "quick": {"checks": 12000, "shards": 8, "timeout": 600, "gomaxprocs": [16, 2, 16, 4]},
         "thorough": {"checks": 800000, "shards": 16, "timeout": 2400, "gomaxprocs": [16, 2, 1, 4]}},
        {"test": "TestVfC20aSeqno",
         "quick": {"checks": 12000, "shards": 4, "timeout": 300, "gomaxprocs": [16, 2, 1, 4]},
         "thorough": {"checks": 1200000, "shards": 16, "timeout": 1500, "gomaxprocs": [16, 2, 1, 4]}},
    ],
    "C10": [
        {"test": "TestVfC10Score",
         "quick": {"checks": 60000, "shards": 4, "timeout": 600},
         "thorough": {"checks": 3200000, "shards": 16, "timeout": 2400}},
    ],
    "C15": [
        {"test": "TestVfC15Seq", "kind": "exhaustive",
         "quick": {"shards": 4, "timeout": 300, "params": {"maxlen": 7}},
         "thorough": {"shards": 16, "timeout": 1500, "params": {"maxlen": 9}}},
        {"test": "TestVfC15Conc",
         "quick": {"checks": 4000, "shards": 4, "timeout": 300, "gomaxprocs": [1, 16]},
         "thorough": {"checks": 800000, "shards": 16, "timeout": 1500, "gomaxprocs": [1, 16, 2, 4]}},
        {"test": "TestVfC15Forced",
         "quick": {"checks": 400, "shards": 2, "timeout": 300},
         "thorough": {"checks": 80000, "shards": 8, "timeout": 1500}},
        {"test": "TestVfC15Stress",
         "quick": {"skip": True},
         "thorough": {"checks": 4800, "shards": 16, "timeout": 1500}},
    ],
    "C11": [
        {"test": "TestVfC11Split",
         "quick": {"checks": 20000, "shards": 4, "timeout": 300},
         "thorough": {"checks": 800000, "shards": 16, "timeout": 1500}},
        {"test": "TestVfC11Send",
         "quick": {"checks": 12000, "shards": 8, "timeout": 300},
         "thorough": {"checks": 600000, "shards": 16, "timeout": 1500}},
    ],
}

LEVEL = {}  # default: exploration

RULES = {
    "C12": "(Hostile) rapid-generated node configurations (three routers x sequence-number validator x subscription filters x four "
           "signature policies x score / gater / peer exchange / test + partial-message extensions x max message size x (in a third) a "
           "rejecting topic validator next to a slow one-slot default validator) and 1-10 hostile "
           "RPCs each (optionally repeated up to 12 times): subscriptions, messages and every control kind with fields from pools of nasty "
           "values (absent / empty / known / unknown / 64 KiB / binary topics and ids, sequence numbers of 0-12 bytes, junk or truncated "
           "authors, absent / empty / junk / honest signatures over weird fields, thousands of ids, PRUNE with junk / empty / mismatched "
           "/ hundreds of peer records and huge back-off, repeated extension handshakes, partial-message fields), from connected peers, "
           "an unknown peer and the node's own ID; every RPC is passed through the encoder and decoder first. Oracle: no panic in the "
           "event loop (recover), in the built-in validator (recovering wrapper), in verifyMessageSignature, or anywhere else (process "
           "crash capture); after every RPC ListPeers answers within 1 s virtual and a fresh message from an honest peer is delivered. "
           "(Fuzz) arbitrary bytes -> RPC.Unmarshal -> the same node and oracle; quick tier runs the seed corpus, thorough tier 180 s of "
           "native coverage-guided fuzzing on 16 workers. (Wire) a real node with an honest real peer and a skeleton attacker over simnet: "
           "1-12 raw byte strings written to the attacker's pubsub stream - well-framed garbage, length prefixes beyond the (1 KiB / 64 "
           "KiB / 1 MiB) message size limit, frames of exactly the limit and one byte more, over-long varints, truncated frames, empty "
           "frames, decodable RPCs with hostile field values, honest RPCs - each optionally followed by close / reset / reopen; then the "
           "honest peer's message must reach the node's subscription, the node's must reach the honest peer, ListPeers / GetTopics must "
           "answer. Non-trivial: the input decodes and reaches a handler (Hostile, Fuzz); two or more frames (Wire). Distinct = case JSON "
           "/ corpus entry."
           " Peer-exchange records include correctly signed envelopes: a valid peer record, one whose signature does not verify, and one in the peer-record domain whose payload is another registered record type (a relay reservation voucher).",
    "C13": "direct-driven gossipsub node with scoring, gater, test and partial-message extensions, peer exchange, tag tracer, automatic "
           "heartbeats and a slow / rejecting validator; one or two remote peers of every protocol version (one optionally a configured "
           "direct peer) plus a bystander; histories (<= 40 ops) of outbound open / close / reset-with-connection-kept / repeated "
           "flapping, inbound open / close in any order, subscription / GRAFT / PRUNE / IHAVE / IWANT / IDONTWANT / extension / partial "
           "/ test-extension RPCs (also on an inbound stream that outlives the outbound one), publishes (valid, bad signature, rejected, "
           "validation finishing after the disconnect), blacklisting, heartbeats, time; then final disconnect and 3-12 virtual minutes of "
           "retention. Oracle: the peer ID is absent from an explicit list of 25 maps, from a reflection walk over the whole PubSub "
           "object graph, and from the connection manager's protections (configuration such as the direct-peer set and the blacklist "
           "exempt). (NET) the same absence oracle (reflection walk + a recording connection manager) on a real node over simnet with "
           "a bystander and the observed peer, which is a skeleton of any protocol version (opens, closes, resets either stream in any "
           "order, refuses the node's respawned streams, sends subscriptions / GRAFT / PRUNE / IHAVE / IDONTWANT / messages incl. slow "
           "validation on a stream that outlives the other direction) or a real node (subscribe, publish, stream resets, disconnect); "
           "3 or 12 virtual minutes of retention. Non-trivial: an RPC after the outbound close, streams closed in another order than "
           "opened, the dead-peer back-off used, or a validation that may outlive the connection. Distinct = case JSON."
           " Peers may come back from another address; two peers can share an address.",
    "C01": "(NET) 2-10 real nodes on full libp2p hosts over simnet with generated per-link latencies (1-50 ms); routers all-gossipsub, "
           "all-floodsub, all-randomsub or mixed; gossipsub parameters: defaults, (D 2, Dlo 1, Dhi 2) or (D 4, Dlo 2, Dhi 5), flood "
           "publishing on or off; roles per node: 1 or 2 subscriptions, relay only, relay + subscription, none (outside publisher); "
           "overlay random / sparse / line / star, then 0-2 rounds of churn (subscribe, cancel, re-subscribe inside the unsubscribe "
           "back-off, relay, relay-cancel, connect, disconnect, waits) each repaired by construction: the graph induced on interested "
           "nodes stays connected, outsiders stay attached, degree <= 6 (= Dlazy = RandomSubD, the bound under which every random "
           "selection of the routers is exhaustive). Each round: 80 virtual seconds of settling, precondition check (hosts connected "
           "as scripted, ListPeers = interested neighbours, else inconclusive), 1-3 publishers with bursts of 1-2 messages (small, or "
           "1.5 KB to engage IDONTWANT), N+4 virtual seconds, then every subscription of every node is drained: each message of the "
           "round exactly once, nothing else. Non-trivial: a subscriber two or more hops from a publisher, or a churn round. "
           "Distinct = case JSON. Churn also flaps an existing link 1-7 times in a row; a third of the rounds start with 11-16 messages "
           "of one publisher one second apart (sustained one-way gossip) before the measured publishes."
           " Cases may use a content-based namespaced message ID function (about 50 bytes with a 34-byte common prefix) on every node, and gossipsub publishers may publish through one reused MessageBatch per node.",
    "C05": "(NET) 2-4 real nodes (gossipsub / floodsub / randomsub mixes, outbound queue size 1, 2 or 32) plus a skeleton observer on "
           "full libp2p hosts over simnet with generated link latencies; histories of up to 24 operations - Subscribe, "
           "Subscription.Cancel, Relay, relay-cancel (also twice), Topic.Close, fanout-only joins, connect, whole-peer disconnect, reset "
           "of one pubsub stream with the connection kept (at most 3 per directed pair), publishes, waits of 1 ms - 1.2 s, the observer "
           "(un)subscribing - with a state-aware generator (cancellations hit live references, half of the histories tear node 0 down "
           "in a generated order) followed by late joiners and late resets; at every quiet point (18 virtual seconds) ListPeers of "
           "every node and topic equals {connected peers whose model interest is true}, and the observer's fold of hello packet + "
           "announcements in wire order on the newest stream equals each node's interest; cancelled subscriptions end with "
           "ErrSubscriptionCancelled. (DD) a direct-driven node with fake peers whose queues (capacity 1-3) are drained only when the "
           "history says so: the same operations plus peer arrival / death, drains and waits around the 1 s retry delay; each peer's "
           "fold equals the node's interest at quiet points; every subscription holds exactly the messages published while it was "
           "live (up to its buffer of 1, 2, 4 or 32), then ErrSubscriptionCancelled if cancelled, then blocks if live. Non-trivial: "
           "interest returns to zero and rises again or a stream was reset (NET); an announcement hit a full queue or a subscription "
           "was cancelled with buffered messages (DD). Distinct = case JSON."
           " (NET) links between real nodes also flap 1-7 times in a row."
           " The observer may replace its stream to a node by a second one whose first packet names fewer topics (the old stream still open); gossipsub nodes score their peers with an application score that the history can push below the graylist threshold and back.",
    "C16": "(NET) node N of each router on a full libp2p host (NewStream optionally taking 20-400 virtual ms) with three skeleton peers "
           "over simnet (latencies 1-50 ms): the target X (floodsub / gossipsub v1.1 / v1.2), an honest forwarder Y and a leaf Z; "
           "blacklist implementation map or time-cached, route BlacklistPeer or Add inside the event loop; position of the moment: "
           "before X connects, delta ms after the connect starts (delta swept over the whole connection + identify + stream set-up), "
           "settled (in the mesh when gossipsub), while a message of X sits in a slow validator, after X disconnected, or inside the "
           "dead-peer back-off after X reset the node's stream 1-3 times; 0-6 operations before and 0-10 after the moment (X "
           "publishes, Y forwards messages signed by X, Y and N publish, X re-announces / GRAFTs / reconnects / reopens its stream / "
           "resets the node's stream, further blacklisting calls of either route, waits) plus one message of every kind at the end. "
           "Oracle: no message sent by X or authored by X after the moment is delivered at N or forwarded to Z; no RPC reaches X on a "
           "stream it accepted later than one latency after the moment; after BlacklistPeer (first or repeated): no outbound queue, "
           "the old queue closed, X in no mesh / fanout / ListPeers, and no RPC reaches X later than one latency after it; at the end "
           "no outbound queue for X. Y's own messages must still arrive (control). Non-trivial: position other than settled and "
           "control messages delivered. Distinct = case JSON."
           " X subscribes to two more topics the node has not joined (fanout membership through 'nfan' publishes), bursts of eight 30 KB publishes leave a backlog in X's queue at the moment; after BlacklistPeer the old queue must answer a Pop with ErrQueueClosed even though RPCs are still queued; timing rules carry a 300 ms backlog allowance after a burst."
           " The node's signature policy is StrictSign, LaxSign or LaxNoSign; Y also forwards unsigned messages naming X as author.",
    "C14": "direct-driven node of each router (gossipsub with scoring and gater; with or without a discovery service; 2 real connector "
           "goroutines, automatic heartbeats, a slow validator with 0-4 remote messages in validation) under 1-4 concurrent caller "
           "goroutines issuing 1-10 calls each of 23 APIs (join, subscribe, Next, cancel, publish, publish-with-readiness, batch, relay, "
           "validator (un)registration, event handler / NextPeerEvent / cancel, ListPeers, GetTopics, blacklist, direct peers, score "
           "params, feedback, topic close), some repeated back to back, or a polling storm (goroutines hammering one API 10-150 times); "
           "the constructor's context is cancelled before the k-th call, at a virtual instant, or by a separate goroutine after a "
           "generated number of yields; after shutdown each API is called again 1, 2, 3 or 40 times in a row. Oracle: 60 virtual seconds "
           "later every call has returned, no call panicked, no mutex reachable from the PubSub / Topic / Subscription / handler "
           "objects is left locked at quiescence, and when the case ends the bubble has no blocked goroutine left. (NET) 2-4 real "
           "nodes over simnet publishing every 13-150 ms (optionally with a 120 ms validator), a skeleton peer writing 10-400 RPCs to "
           "node 0 around the cancellation, connect / disconnect / stream-reset churn; node 0's context is cancelled at a generated "
           "virtual instant; its API is called again; the hosts are closed: same oracle, and a goroutine left in library code (comm.go's "
           "stream readers and writers included) is a violation. Non-trivial: at least one call was in progress at the instant of "
           "cancellation (DD); cancelled under traffic (NET). Distinct = case JSON."
           " Two asynchronous, context-honouring default validators apply to every message (both report at once on shutdown).",
    "C03": "direct-driven floodsub node under each signature policy (StrictSign, StrictNoSign, LaxSign, LaxNoSign) x author mode (default, "
           "custom author with key in the peerstore, anonymous); 1-12 messages per case: honestly signed messages of three remote authors "
           "(two ed25519 with extractable key, one ECDSA with attached key) forwarded by the author or another peer and hit by 0-3 of 20 "
           "tamperings (change data / topic / from / seqno, drop / empty / swap / corrupt signature, swap / attach / garbage key, re-sign with "
           "a foreign key incl. one the node has seen honest messages from, from = local node, unknown fields, drop from / seqno, truncate "
           "peer ID, fully anonymous), and local publishes (default key, per-publish ed25519 / ECDSA key). Oracle: independent "
           "implementation of the signature rule + the policy's presence rules + self-origin rule + seen IDs; accept => delivered once and "
           "forwarded byte-identical, reject => never delivered or queued; verifyMessageSignature is also compared differentially with the "
           "independent verifier; own messages must be acceptable to a correct receiver. Non-trivial: tampering changed the verdict, or an "
           "accept under a lax policy. Distinct = case JSON."
           " One case in five runs in an overload configuration (validation queue of one, one worker, an inline validator the harness can hold): generated messages then arrive while the pipeline is full; such a message may be dropped but is never let through unverified.",
    "C04": "direct-driven gossipsub node with scoring (invalid-delivery counters observable), 1-5 scripted validators (default / topic A / "
           "topic B, inline / asynchronous, optional timeout), 1-3 validation workers, optional tiny throttles (global, per validator, "
           "queue); 1-4 messages per case, local or remote, on topic A or B, with a per-validator verdict in {Accept, Reject, Ignore, 7, "
           "-1, -5} and virtual completion delay, 0-3 duplicate copies from other peers at offsets during and after validation, optionally "
           "a second message on the other topic in the same RPC. Oracle through counting wrappers: delivered/forwarded iff every "
           "applicable validator ran exactly once and accepted; a returned Reject => dropped and every forwarder's counter rose by 1..copies; "
           "no Reject => no counter moved; validators of the other topic never run; skipped validators only where throttling is possible; "
           "local failure => Publish error and nothing leaves the node. Non-trivial: >= 2 validators with different verdicts, duplicates in "
           "flight, or throttling possible. Distinct = case JSON.",
    "C19": "direct-driven node under floodsub, randomsub and gossipsub with an in-memory tracer teed into the JSON and protobuf file tracers; "
           "histories (<= 50 ops, <= 6 peers, outbound queues of 1-3 left undrained or 64 drained) of arrivals, departures, remote "
           "subscribe/unsubscribe/GRAFT/PRUNE, subscribe/cancel, relay/relay-cancel, heartbeats, local and batch publishes, remote "
           "messages (valid, duplicate, bad signature, rejected, ignored). After every step the trace is replayed as set operations and "
           "compared with the node (joined topics with JOIN/LEAVE alternation, router peer set, every mesh, at most one DELIVER per "
           "message and exactly one for each message a subscription received, one PUBLISH per local attempt); at the end the RPCs each "
           "outbound queue accepted are compared as multisets of independently rendered metadata with the SEND_RPC events, and the JSON "
           "and protobuf files are parsed back and compared event by event with the in-memory sequence. Non-trivial: the trace holds a "
           "LEAVE or closed stream and a DROP_RPC or rejected message. Distinct = case JSON."
           " Local-only publications and a second Cancel of an already cancelled subscription are part of the histories."
           " One case in three runs gossipsub with peer scoring and peer exchange, an accept-PX threshold above every score, and PRUNEs that carry peer-exchange records; batches may contain local-only entries.",
    "C18": "(Seq) every enabled sequence up to the length bound over {join / leave of two peers, pull on handler A, create handler B, pull on "
           "handler B} on the handler's event log, exhaustively; (Node) rapid histories (up to 200 ops) on a direct-driven node under all "
           "three routers: remote subscribe / unsubscribe / disconnect / inbound-stream close on 2-5 peers interleaved with handler "
           "creation (also behind a pending membership change, and racing Topic.Close on the same handle with the event loop held), "
           "NextPeerEvent (immediate, blocked, two concurrent waiters, cancelled mid-wait) and handler cancellation. Oracle: per "
           "handler the returned events fold from the empty set to exactly the topic's membership once quiet and drained; strict "
           "join/leave alternation per peer starting with join; an event is returned iff one is pending; no call stays blocked while "
           "events are pending (judged at synctest quiescence). Non-trivial: a join and a leave of one peer fell before either was "
           "consumed, a handler was created while members existed, or a call was blocked waiting for an event. Distinct = case JSON."
           " Handlers are also created while a membership change of a peer is already waiting for the event loop (the loop is held, the change queued first).",
    "C06": "direct-driven node under floodsub, randomsub and gossipsub (scoring through the application score, direct peers, flood publish "
           "on/off, data-derived message IDs); histories (<= ~60 ops, <= 12 peers of all protocol versions) of arrivals, departures, remote "
           "subscribe/unsubscribe/GRAFT/PRUNE, IDONTWANT for messages to come, score changes around the publish threshold, direct-peer "
           "changes, heartbeats, join/leave, time advance, and publishes: local (also local-only) or remote from peer X with author X, "
           "another peer or an unconnected key. Before each publish the must-send and may-send sets are computed from a snapshot by the "
           "statement's rules; observed recipients must lie between them (exact size where the rule fixes it), every copy must equal the "
           "accepted message byte for byte and verify under an independent implementation of the signature rule; fan-out sets are "
           "checked across heartbeats (<= D, eligible members kept, topped up, expiry after FanoutTTL). Non-trivial: a publish with >= 3 "
           "topic peers of >= 2 recipient classes. Distinct = case JSON."
           " Local publishes also go through AddToBatch + PublishBatch (also local-only); the time of the last fanout publication is the harness's own record, not the router's."
           " FanoutTTL is the default, 20 s or 150 s (configured through the parameters); an IDONTWANT may name a neighbouring ID (the message's ID plus a zero byte), which says nothing about the message.",
    "C09": "direct-driven gossipsub node with peer scoring through the application score, peer exchange on, optional gater, flood publish "
           "on/off, joined or fan-out only, small or large mesh; thresholds accepted by validation; 2-8 peers (all protocol versions, "
           "direct or not, inbound/outbound) whose scores are drawn from {each threshold, its two float neighbours, 0, +-0.5, +-1, "
           "+-100}; <= 40 probes: forwarded publish, GRAFT (alone or mixed with payload), IHAVE, IWANT, heartbeat, local publish (mesh / "
           "flood / fan-out), PRUNE with peer-exchange records (valid, other signer, garbage, absent, already connected), score change, "
           "gater throttling driven through its tracer interface. Each probe's observable effect is compared with the statement's table "
           "in both directions (what must not happen below a threshold, what must happen at or above it). Non-trivial: a probed peer's "
           "score is exactly on or adjacent to a threshold. Distinct = case JSON."
           " Topic 1 can be joined once (promotion of fanout members); messages of direct peers must be delivered also while the gater throttles.",
    "C07": "direct-driven gossipsub node with manual heartbeats; rapid draws a parameter set accepted by validate() (D<=8, incl. the all-zero "
           "bootstrapper set), optional scoring through the application score, direct peers, and a history (<= ~50 ops, <= 36 peers) of "
           "arrivals/departures with direction and protocol version, remote subscribe/unsubscribe/GRAFT/PRUNE (also in bulk), joins "
           "(subscribe or relay, incl. fan-out promotion), leaves, score changes, direct-peer changes, time advance, heartbeats; "
           "oracle = validity predicate over pre/post snapshots of every heartbeat (no negative member, growth to min(D, pre+eligible), "
           "cut to exactly D keeping the Dscore best and Dout outbound, additions only from eligible peers and beyond Dlo only through the "
           "outbound quota / opportunistic rule, GRAFT/PRUNE queued for every own-initiative change) plus invariants after every step "
           "(mesh members are connected peers, mesh exists iff joined, fan-out only for unjoined topics) and admission rules for remote "
           "GRAFTs. Non-trivial: a heartbeat changed a mesh that had >= Dlo-1 members, or an admission was refused. Distinct = case JSON."
           " Half of the structured two-topic histories populate both topics with the same peers and over-fill one of them, so that one heartbeat grafts a peer on one topic and prunes it on the other.",
    "C08": "direct-driven gossipsub node, manual heartbeats, generated prune/unsubscribe back-offs, flood threshold, queue sizes 1-3 left "
           "undrained (dropped + retried control) or drained; histories (<= ~60 ops) of joins, leaves, heartbeats (also 14-16 in a row "
           "to meet the back-off sweep), received GRAFT/PRUNE (back-off absent, 0..300 s), departures and returns, time advances to the "
           "k-th pending deadline +- delta; a quarter start with join + a GRAFT from every peer + heartbeat (mesh past Dhi before any "
           "back-off exists); reference model noGraftBefore[topic,peer] (max-merge over the statement's events, never reads "
           "the router's table); every GRAFT is judged at the instant it is handed to the outbound queue; a GRAFT received before the "
           "deadline must be refused with PRUNE, penalised (1, or 2 inside the flood threshold of the last PRUNE) and extend the "
           "back-off; every PRUNE to a v1.1+ peer states the prune / unsubscribe back-off. Non-trivial: a graft opportunity or GRAFT "
           "receipt within a few seconds of a deadline, or a control message was dropped and retried. Distinct = case JSON."
           " Publishing while not subscribed (fanout) is part of the histories, so a re-join inside the back-off meets a fanout set.",
    "C17": "(b) direct-driven gossipsub node with small limits (MaxIHaveLength 2-5, MaxIHaveMessages 1-3, MaxIDontWant* 1-3, retransmission "
           "1-3, IDONTWANT TTL 1-3, history 1-5 / gossip <= history, follow-up 0.5-3 s, size threshold 64 B): histories (<= ~50 ops) of "
           "local and remote publishes (sizes below / exactly on / above the threshold), manual heartbeats, IHAVE / IWANT / IDONTWANT "
           "with 1-8 ids (seen, unseen, never-existing, repeated) split over 1-3 control entries, late deliveries, time advance; every "
           "clause of the statement judged on the wire per heartbeat epoch (IHAVE recipients, length and window; IWANT service window, "
           "retransmission count, unwanted; requests only for unseen ids within the per-peer budget; IDONTWANT limits and TTL; IDONTWANT "
           "emission rules; promise penalties need an overdue, missing request). Non-trivial: an event exactly at a window edge or a "
           "counter exactly at its cap. "
           "(a) message cache alone: rapid sequences of put / get / get-for-peer / gossip-ids / shift (<= 60 ops, gossip <= history <= 8) "
           "against a sliding-window model (retrievable for HistoryLength shifts, advertised for HistoryGossip, per-peer transmission "
           "counts); non-trivial = a query hits a message exactly at a window edge. (b) see part list. Distinct = distinct case JSON."
           " Large and small messages are also published on a topic the node has not joined (fanout): no IDONTWANT may go to anybody then.",
    "C02": "(b) direct-driven floodsub / gossipsub node with seen TTL in {2 s, 30 s, 120 s} x strategy x message ID function (default, global "
           "content hash, per-topic content hash) x 0-2 asynchronous default validators and an optional topic validator with virtual "
           "delays, 1-4 workers, signed or (strict no-sign) unsigned messages; 2-14 events of 1-5 copies of one of three contents from "
           "several peers at offsets 0-60 ms (in one RPC or separately), optionally with a local publish of the same content, separated by "
           "generated quiet times around TTL and TTL + sweep. Oracle per event from the (a)-model window (must-duplicate / may / must-new): "
           "each of two subscriptions gets the ID at most once, each validator runs at most once, exactly once where the ID must be new, "
           "not at all where it must still be remembered. Non-trivial: copies overlap a running validation or a local publish collides. "
           "(a) seen cache alone, both strategies, public timecache API under the virtual clock: sequences of Add/Has/advance over 4 ids "
           "with TTLs 1s..10min against the statement's two-sided bound (must be present before expiry, must be absent after expiry + "
           "one sweep interval, either answer in between with the model following the implementation); non-trivial = an operation "
           "falls after an expiry or between TTL and sweep. (b) see part list. Distinct = distinct case JSON."
           " (Batch) direct-driven gossipsub node; histories of AddToBatch / PublishBatch on two reused MessageBatch objects while the event loop is held up for generated stretches, so that an addition races a taken batch still waiting in the hand-off channel; every added message is delivered exactly once.",
    "C20": "(b) direct-driven gossipsub node with the validator as default validator (inline or asynchronous, optionally next to an accepting "
           "asynchronous topic validator) on the instrumented store, StrictSign, 1-8 workers, seen TTL 2 s, scoring on; 1-8 bursts of 1-8 "
           "signed messages (2 authors, sequence numbers 0-12 with repeats and decreasing runs, 0-12 byte encodings) arriving in one instant "
           "from several peers, separated by quiet times up to beyond TTL + sweep. Oracle per burst: stored nonces strictly increasing, "
           "accepted <=> delivered exactly once <=> forwarded, nothing at or below the highest accepted number is delivered or forwarded, the "
           "highest fresh number is accepted, no invalid-delivery counter moves. Non-trivial: >= 2 workers validating a burst, or a replay "
           "after the seen window expired. (a) BasicSeqnoValidator on an instrumented metadata store: 1-8 goroutines each validating a generated list of (author, "
           "sequence number incl. duplicates, decreasing runs, 0, 2^64-1, encodings of 0..12 bytes), optionally with the first store "
           "reads of all goroutines forced to overlap and with yields inside the store; oracle = per author the stored nonces are "
           "strictly increasing, equal the accepted values, no value accepted twice, the highest value is accepted, final nonce = "
           "highest accepted, replays get Ignore, no panic. Non-trivial: >= 2 goroutines hold messages of one author. (b) see part list."
           " One case in three registers a second, accepting inline default validator after the sequence-number validator; one in five runs in an overload configuration (validation queue of one, one worker, a first validator the harness can hold) where marked bursts arrive while the pipeline is full.",
    "C10": "rapid-generated parameter sets accepted by validate() (atomic and skip-atomic with whole groups zeroed, 1-3 topics, "
           "topic cap, IP whitelist) x histories of up to ~70 scoring events (connect, disconnect, reconnect, graft, prune, "
           "validate, deliver, reject with each of the 11 reasons, duplicates before/after validation and around the delivery "
           "window, behaviour penalties, decay ticks, cap-lowering parameter updates, IP assignment/refresh, delivery-record GC, "
           "application feedback) at generated virtual times; after every event Score(p) of every peer is compared with an "
           "independent v1.1 reference model (interval where the statement leaves sampling open), counters in [0,cap], no NaN, "
           "penalties never raise the score, retention rule, extended inspector snapshot. Non-trivial: >= 2 distinct interaction "
           "labels (cap hit, decay-to-zero, retention, re-graft with history, duplicate before/in/after window, recap, topic cap, "
           "P6 surplus, P7 excess, activation, sticky penalty, record expiry) occurred. Distinct = distinct case JSON.",
    "C15": "(Seq) every enabled sequence up to the length bound over {push, urgent push, pop, pop with cancelled context, close} "
           "for capacities 1..3 against a reference two-class FIFO, invariant after every step; (Conc) rapid-generated 1-4 "
           "blocking pushers, 1-4 poppers with optional cancellation and an optional closer at generated virtual instants, judged "
           "at synctest quiescence (conservation, capacity, order, every blocked operation resumed); (Forced) cancellation forced "
           "between the context check and the condition wait through the verif hook; (Stress, thorough) real goroutines racing "
           "cancel against pop. Non-trivial: Seq = a pop returned an item and the history has a full-queue refusal, an urgent item "
           "overtaking a normal one, or an operation after close; Conc = at least one operation blocked and later resumed; "
           "Forced/Stress = every case. Distinct = distinct case JSON."
           " Every sequential history runs inside a bubble with each operation in its own goroutine, so an operation that must return at once and does not is a violation, not a hang.",
    "C11": "rapid-generated RPCs (0-12 messages, subscriptions, all six control kinds, extension / partial / "
           "test-extension fields, element sizes from 0 to 1.5x the limit) and limits 8..4096; oracle = round trip "
           "by canonical content over the fragments of RPC.split + size rule + no empty fragment + input not mutated. "
           "Non-trivial: the RPC is larger than the limit and holds >= 2 field kinds; distinct = distinct case JSON."
           " One case in eight packs messages whose encoded size sits exactly at a varint length boundary (126-129, 16383-16385, 16511-16512 bytes) under a limit that is a multiple of the per-message cost plus a small remainder; a fragment that carries no element although the RPC has elements counts as an empty RPC.",
}

ASSUMPTIONS = {
    "C12": ["framing (oversized, truncated, zero-length frames on a real stream) is exercised by the network-level part, not here",
            "native fuzzing cannot be pinned to a seed; the saved input is the reproducible unit"],
    "C01": ["degree bound: at most 6 neighbours per node, i.e. non-mesh topic peers <= Dlazy and randomsub peers <= RandomSubD whatever the mesh looks like; the statement's bound D+Dlazy presumes a full mesh, which neighbours that prune a node can deny it, so the check stays inside the part of the domain where delivery does not depend on a random draw",
            "a round whose announcements have not converged after 80 s (ListPeers differs from the model) is inconclusive: that is C05's property and the antecedent of this one",
            "bursts stay far below the subscription buffer (32) and the validation queue"],
    "C05": ["connected(i,j) is what both libp2p hosts report; a case whose connection state differs from the script at a quiet point is inconclusive",
            "stream resets are limited to 3 per directed pair: the dead-peer back-off gives up after MaxBackoffAttempts = 4 respawns in 10 minutes by design",
            "the model of interest is: a live relay reference, or a live subscription on a topic that was not joined fanout-only"],
    "C16": ["messages already inside the validation pipeline at the moment are don't-care (the statement speaks of messages received from that moment on)",
            "in-flight allowance: one one-way latency + 25 ms, for RPCs written and streams opened (lazily negotiated) just before the moment",
            "the time-cached blacklist is given a one-hour expiry, longer than any case"],
    "C14": ["the direct-drive part replaces comm.go's per-stream goroutines by the harness; the NET part runs them",
            "inside a synctest bubble a goroutine waiting for a sync.Mutex freezes the virtual clock, so callers of Topic.Close / SetScoreParams are serialised against the other calls on the same handle by the harness (on channels) and the real mutex is probed with TryLock instead; a frozen bubble is reported as inconclusive (exit 2), never as a violation",
            "calls that wait by contract on the caller's context (Next, NextPeerEvent, Publish with readiness) get a 150 ms caller deadline",
            "which goroutine wins a race is up to the Go scheduler: a schedule-dependent violation is found with a probability per run, and its replay file is re-run 20 times"],
    "C13": ["the stub host refuses new streams, so the node's own reopening attempts after a stream reset fail; at most one such attempt is pending per peer, as in the real flow",
            "retention wait: 3 virtual minutes, 12 when the dead-peer back-off table was used (its entries live 10 min + 1 min clean-up)"],
    "C19": ["refused pushes are not observable at the queue, so DROP_RPC events are only checked for not shadowing a SEND (a refused push that is also traced as sent is caught, a refused push traced as nothing is not)"],
    "C18": ["the exhaustive part drives the handler's log with the notifications the event loop produces (join only for a non-member, leave only for a member); the node part checks that the event loop really does so"],
    "C06": ["the node's message ID function is data-derived so that IDONTWANT can name a message before it exists",
            "peers GRAFT only for topics they have subscribed to and a message is judged against the recipients the snapshot taken in the same instant allows"],
    "C09": ["scores are the application-specific score only (all other weights zero), so the harness knows each peer's exact score",
            "the router's IHAVE flood protection counts every control RPC of a peer per heartbeat; the positive IHAVE assertion is made only inside that budget"],
    "C07": ["scores are read from the router's scorer at heartbeat time and treated as an input (C10 checks the scorer itself)",
            "back-off entries are an input too (C08 checks them); expired-but-unswept entries make a candidate optional, not mandatory",
            "negative degrees and OpportunisticGraftTicks = 0 are outside the domain (no documented meaning)"],
    "C08": ["SEND_RPC trace events give the instant an RPC is handed to the outbound queue (C19 checks those events against the queues)",
            "peer scoring is enabled with all weights zero so behaviour penalties are counted without changing any score"],
    "C17": ["message IDs are put into the cache once (the seen cache guarantees that inside its window); HistoryLength >= 1"],
    "C02": ["operations are kept half a second off the sweep instants so no outcome depends on the order of an operation and a sweep in one instant"],
    "C20": ["interleavings are those the Go scheduler produces plus one forced overlap of the first store reads; GOMAXPROCS varied across shards"],
    "C10": ["the reference model is a second implementation written from the v1.1 specification; a misreading shared by both goes unseen",
            "domain: parameters validate() accepts with disabled groups zero or in range, DecayInterval >= 1s, at most one connection per remote address and one IPv6 address per peer, PRUNE only for mesh members, each message ID validated once",
            "time in mesh and P3 activation may be sampled at decay ticks or evaluated continuously: both are accepted (interval oracle)"],
    "C15": ["synctest's durable-blocking detection (sync.Cond.Wait is durably blocking) defines quiescence",
            "the forced interleaving relies on the verif-tagged schedule point in rpcQueue.Pop; other interleavings are whatever the Go scheduler produces"],
    "*": ["Go 1.25 runtime, testing/synctest virtual clock and pgregory.net/rapid v1.3.0 are trusted",
          "the harness is compiled into package pubsub from /repo's working tree (overlay), so it sees the code as it is now"],
    "C11": ["generated protobuf Marshal/Size in pb/ are trusted (used by the oracle to canonicalise content)"],
}

HOOK_COMMITS = ["407c3ed", "8f1d1a5"]

META = {
    "C12": {
        "text": "Structured fuzzing of the RPC handlers across node configurations with crash and liveness oracles, plus native coverage-guided "
                "fuzzing of the decode-and-handle path; finds unchecked indexing, nil dereferences, unbounded work and stalls reachable from "
                "the wire within the generated shapes.",
        "note": "Panics inside library goroutines that cannot be recovered are captured by the driver from the process output and the in-flight case file.",
        "technique": "structured property-based fuzzing (rapid) + Go native coverage-guided fuzzing, crash and liveness oracles",
    },
    "C13": {
        "text": "Stateful property-based testing over stream-event interleavings and RPC mixes with an absence oracle (explicit map list + "
                "reflection walk + connection-manager protections) after the retention periods; finds missing deletes, never-expiring "
                "retention and state created after the disconnect.",
        "note": "Direct-drive bypasses comm.go; the reflection walk follows only this module's types. One open known finding (gater entry created by a late validation verdict) is excused by its own key.",
        "technique": "stateful property-based testing (rapid) with absence oracle incl. reflection walk of the object graph",
    },
    "C01": {
        "text": "Property-based testing over topologies x router mixes x roles x parameter sets x churn histories on a simulated network "
                "of real nodes; generator repairs every round by construction (connected overlay, degree bound), the oracle is the "
                "exact multiset every subscription must receive. Finds a router skipping a class of peers, lazy repair (IHAVE / "
                "IWANT) not working, relay-only or outside publishers not served, double or missing local delivery.",
        "note": "The precondition (announcements converged) is checked, not assumed; cases where it fails are inconclusive and more than half of them make the run exit 2.",
        "technique": "property-based testing (rapid) on a simulated libp2p network with constructive topology / churn generation and exact delivery oracle",
    },
    "C05": {
        "text": "Stateful property-based testing against a reference model of interest (reference counts over subscriptions and relays, "
                "fanout-only flag) on a simulated network of real nodes with stream-level fault injection, observed through ListPeers on "
                "every node and through a skeleton peer that folds the wire; plus a direct-driven part where outbound queues stay full "
                "for generated periods. Finds reference-count mistakes, stale retries, hello packets that disagree with the state, "
                "state lost or kept across stream resets and reconnects, subscriptions that lose buffered messages on Cancel.",
        "note": "Two genuine defects found and repaired (stream reset forgot subscriptions; unsubscribe retry vs fanout-only).",
        "technique": "stateful / model-based property-based testing (rapid) on a simulated libp2p network with fault injection, plus direct-drive histories",
    },
    "C16": {
        "text": "Property-based testing over life-cycle positions x blacklisting routes x implementations on a simulated network with "
                "skeleton peers that play the blacklisted peer, an honest forwarder and a downstream observer; the moment is swept "
                "through connection set-up with generated latencies and stream-negotiation delays. Finds missing checks on one of "
                "the paths (forwarder vs author, pending vs established vs respawned streams), clean-up skipped for peers already "
                "listed, traffic that keeps flowing to the peer.",
        "note": "Everything is observed from outside the node (subscription, wire at X and Z) except the 'at that moment' state (queue, mesh, fanout), read in the event loop.",
        "technique": "property-based testing (rapid) on a simulated libp2p network with skeleton peers and generated fault timing",
    },
    "C14": {
        "text": "Property-based testing over concurrent API workloads x cancellation points (by call count, by virtual instant, by a racing "
                "goroutine) x post-shutdown call counts inside a synctest bubble, whose quiescence detection decides 'returns' and "
                "'every goroutine exits'; a reflection walk with TryLock decides 'no lock left held'. Finds unconditional channel "
                "sends / receives towards loops that have exited, replies abandoned by one side, locks kept on early returns, panics "
                "on the way down.",
        "note": "Schedule-dependent violations are found probabilistically (generated polling storms raise the rate); comm.go's stream goroutines are outside the direct-drive harness.",
        "technique": "property-based testing (rapid) of concurrent workloads with generated cancellation points; synctest quiescence + lock-probe oracle",
    },
    "C03": {
        "text": "Property-based testing with mutation-style input generation (tamper and recombine honest messages) against an independent "
                "re-implementation of the acceptance rule, checked in both directions and differentially at unit level; finds skipped "
                "key/author binding, fields left out of the signed bytes, policy/presence mistakes, missing self-origin check.",
        "note": "Trusts libp2p crypto (sign/verify, key marshalling) and the generated protobuf marshaller, which oracle and code share.",
        "technique": "property-based testing (rapid) with independent reference oracle and differential check",
    },
    "C04": {
        "text": "Property-based testing over verdict vectors x validator placements x completion orders x duplicate arrival offsets with a "
                "decision-table oracle observed through counting wrappers and score counters; finds precedence mistakes, unknown verdicts "
                "treated as accept, wrong or missing penalties, validator mix-ups between topics.",
        "note": "Schedules are those the runtime produces under the virtual clock with generated delays; throttled outcomes are only constrained, not predicted.",
        "technique": "property-based testing (rapid) with decision-table oracle under testing/synctest",
    },
    "C19": {
        "text": "Stateful property-based testing with a trace-replay oracle (round trip trace -> rebuilt state, trace files -> events) under "
                "all three routers; finds wrong, missing or doubled events at any traced call site and encoder field loss.",
        "note": "Trusts the stub host, gogo protobuf JSON/binary decoding, synctest.",
        "technique": "stateful property-based testing (rapid) with trace-replay / round-trip oracle",
    },
    "C18": {
        "text": "Bounded-exhaustive enumeration on the event log (complete for the stated bound) plus stateful property-based testing of the "
                "whole path with blocked and cancelled consumers; finds reordering, half-delivery, missing seeding, duplicate joins and lost wake-ups.",
        "note": "Trusts synctest quiescence detection and rapid.",
        "technique": "bounded-exhaustive model-based testing + stateful property-based testing (rapid) with fold oracle",
    },
    "C06": {
        "text": "Stateful property-based testing with a must/may recipient oracle computed from snapshots, under all three routers; finds any "
                "dropped exclusion or inclusion, wrong thresholds, rebuilt messages and fan-out churn within the generated bounds.",
        "note": "Trusts the stub host and an independent 25-line signature verifier built on libp2p crypto; comm.go is bypassed.",
        "technique": "stateful property-based testing (rapid) with set-inclusion oracle (must <= observed <= may) and byte-identity check",
    },
    "C09": {
        "text": "Property-based testing with boundary-value score pools: every side of every threshold including equality and the adjacent "
                "floats is probed with every RPC kind; finds < vs <= mistakes, missing direct exemptions, PX leaks, skipped record checks "
                "and a gater that suppresses control.",
        "note": "Trusts the stub host, libp2p record sealing (to build PX records), synctest; gater verdicts are random by design, so only control handling and the verdict set are asserted under throttling.",
        "technique": "stateful property-based testing (rapid) with boundary-value generation against a decision table",
    },
    "C07": {
        "text": "Stateful property-based testing of the real router on a stub host: tens to hundreds of thousands of generated histories, each "
                "heartbeat judged by a validity predicate that is independent of the random peer selection; finds off-by-ones in degree "
                "handling, missing candidate filters, missing GRAFT/PRUNE emission and stale members within the generated bounds.",
        "note": "Trusts the stub host, synctest, rapid; comm.go and libp2p are bypassed (C01/C05 cover them on the simulated network).",
        "technique": "stateful property-based testing (rapid) on a direct-driven node with snapshot validity predicate",
    },
    "C08": {
        "text": "Stateful property-based testing against an independent deadline model, with time steps aimed at both sides of every "
                "deadline and full-queue retries; finds early GRAFTs from any graft site, lost refresh/penalty, wrong stated back-off.",
        "note": "Trusts the tracer's SEND_RPC timing, the stub host, synctest; one open known finding (flood-window placement) is excused by key.",
        "technique": "stateful property-based testing (rapid) with reference deadline model under a virtual clock",
    },
    "C17": {
        "text": "Model-based property testing of the message cache windows and (b-part) of the gossip bounds on a direct-driven router; "
                "finds window off-by-ones, wrong counters and bound violations reachable by the generated histories; no proof of absence.",
        "note": "Trusts the window model, rapid, synctest.",
        "technique": "stateful model-based property testing (rapid) of MessageCache and of gossip control handling",
    },
    "C02": {
        "text": "Generated operation sequences under a virtual clock against a two-sided time-bound oracle for both cache strategies, and "
                "(b-part) generated multi-copy arrival schedules through the real validation pipeline; finds early forgetting, missing "
                "refresh, never-forgetting and double delivery/validation within the generated bounds.",
        "note": "Trusts synctest's virtual clock and the stated sweep interval (1 minute).",
        "technique": "property-based testing (rapid) with a time-bound reference model under testing/synctest",
    },
    "C20": {
        "text": "Generated concurrent validation workloads with forced overlap against an invariant over the store's Put history; finds "
                "missing re-checks, wrong comparisons and crashes on malformed encodings; schedule coverage is what the runtime yields plus one forced overlap.",
        "note": "Trusts the instrumented store and the Go scheduler's fairness; no proof over all interleavings.",
        "technique": "property-based testing (rapid) with invariant oracle over concurrent histories, forced read overlap",
    },
    "C10": {
        "text": "Model-based property testing: hundreds of thousands of generated (parameter set, event history) pairs compared event by "
                "event against an independent reference implementation of the v1.1 score; finds any altered term, cap, window, "
                "activation, decay or retention rule reachable within ~70 events, 4 peers, 3 topics; does not prove absence.",
        "note": "Trusts the reference model (written from the specification), rapid, synctest's virtual clock; float comparison with relative tolerance 1e-9.",
        "technique": "model-based property testing (rapid histories vs independent reference score model, interval oracle)",
    },
    "C15": {
        "text": "Bounded-exhaustive sequential enumeration (complete for the stated bound) plus generated concurrent histories judged "
                "at quiescence plus one forced interleaving (the cancel-versus-wait window); finds order, capacity, conservation, "
                "error-reporting and lost-wake-up defects inside those bounds; concurrency beyond the generated schedules is not covered.",
        "note": "Trusts testing/synctest, rapid, and the reference FIFO model (60 lines); the forced case needs the verif build tag hook.",
        "technique": "bounded-exhaustive model-based testing + stateful property-based testing under synctest + forced-schedule fault injection",
    },
    "C11": {
        "text": "Generated-input search (rapid, thousands to hundreds of thousands of structured RPC x limit cases) against a "
                "round-trip oracle over canonical content; finds any loss, duplication, reordering, oversize or empty fragment "
                "reachable by the generator; does not prove absence.",
        "note": "Trusts the generated protobuf Size/Marshal code, rapid and the Go runtime; explores RPC shapes up to 12 messages, "
                "8 subscriptions, ~25 ids per control entry and limits 8..4096.",
        "technique": "property-based testing (rapid) with round-trip oracle on RPC.split; sendRPC drop accounting on a direct-driven node",
    },
}
