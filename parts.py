"""Per-property table of check parts, budgets, non-trivial rules and assumptions (DESIGN.md §5)."""

# kind: rapid (default) | exhaustive | plain
# quick/thorough: checks = total rapid cases over all shards; shards = processes; timeout = seconds per shard
PARTS = {
    "C10": [
        {"test": "TestVfC10Score",
         "quick": {"checks": 60000, "shards": 4, "timeout": 600},
         "thorough": {"checks": 1600000, "shards": 16, "timeout": 2400}},
    ],
    "C15": [
        {"test": "TestVfC15Seq", "kind": "exhaustive",
         "quick": {"shards": 4, "timeout": 300, "params": {"maxlen": 7}},
         "thorough": {"shards": 16, "timeout": 1500, "params": {"maxlen": 9}}},
        {"test": "TestVfC15Conc",
         "quick": {"checks": 4000, "shards": 4, "timeout": 300, "gomaxprocs": [1, 16]},
         "thorough": {"checks": 200000, "shards": 16, "timeout": 1500, "gomaxprocs": [1, 16, 2, 4]}},
        {"test": "TestVfC15Forced",
         "quick": {"checks": 400, "shards": 2, "timeout": 300},
         "thorough": {"checks": 20000, "shards": 8, "timeout": 1500}},
        {"test": "TestVfC15Stress",
         "quick": {"skip": True},
         "thorough": {"checks": 4800, "shards": 16, "timeout": 1500}},
    ],
    "C11": [
        {"test": "TestVfC11Split",
         "quick": {"checks": 8000, "shards": 4, "timeout": 300},
         "thorough": {"checks": 600000, "shards": 16, "timeout": 1500}},
    ],
}

LEVEL = {}  # default: exploration

RULES = {
    "C10": "rapid-generated parameter sets accepted by validate() (atomic and skip-atomic with whole groups zeroed, 1-3 topics, "
           "topic cap, IP whitelist) x histories of up to ~70 scoring events (connect, disconnect, reconnect, graft, prune, "
           "validate, deliver, reject with each of the 11 reasons, duplicates before/after validation and around the delivery "
           "window, behaviour penalties, decay ticks, cap-lowering parameter updates, IP assignment/refresh, delivery-record GC, "
           "application feedback) at generated virtual times; after every event Score(p) of every peer is compared with an "
           "independent v1.1 reference model (interval where the statement leaves sampling open), counters in [0,cap], no NaN, "
           "penalties never raise the score, retention rule, extended inspector snapshot. Non-trivial: >= 2 distinct interaction "
           "labels (cap hit, decay-to-zero, retention, re-graft with history, duplicate before/in/after window, recap, topic cap, "
           "P6 surplus, P7 excess, activation, sticky penalty, record expiry) occurred. Distinct = distinct case JSON.",
    "C15": "(Seq) every enabled sequence up to the length bound over {push, urgent push, pop, pop with cancelled context, close} "
           "for capacities 1..3 against a reference two-class FIFO, invariant after every step; (Conc) rapid-generated 1-4 "
           "blocking pushers, 1-4 poppers with optional cancellation and an optional closer at generated virtual instants, judged "
           "at synctest quiescence (conservation, capacity, order, every blocked operation resumed); (Forced) cancellation forced "
           "between the context check and the condition wait through the verif hook; (Stress, thorough) real goroutines racing "
           "cancel against pop. Non-trivial: Seq = a pop returned an item and the history has a full-queue refusal, an urgent item "
           "overtaking a normal one, or an operation after close; Conc = at least one operation blocked and later resumed; "
           "Forced/Stress = every case. Distinct = distinct case JSON.",
    "C11": "rapid-generated RPCs (0-12 messages, subscriptions, all six control kinds, extension / partial / "
           "test-extension fields, element sizes from 0 to 1.5x the limit) and limits 8..4096; oracle = round trip "
           "by canonical content over the fragments of RPC.split + size rule + no empty fragment + input not mutated. "
           "Non-trivial: the RPC is larger than the limit and holds >= 2 field kinds; distinct = distinct case JSON.",
}

ASSUMPTIONS = {
    "C10": ["the reference model is a second implementation written from the v1.1 specification; a misreading shared by both goes unseen",
            "domain: parameters validate() accepts with disabled groups zero or in range, DecayInterval >= 1s, at most one connection per remote address and one IPv6 address per peer, PRUNE only for mesh members, each message ID validated once",
            "time in mesh and P3 activation may be sampled at decay ticks or evaluated continuously: both are accepted (interval oracle)"],
    "C15": ["synctest's durable-blocking detection (sync.Cond.Wait is durably blocking) defines quiescence",
            "the forced interleaving relies on the verif-tagged schedule point in rpcQueue.Pop; other interleavings are whatever the Go scheduler produces"],
    "*": ["Go 1.25 runtime, testing/synctest virtual clock and pgregory.net/rapid v1.3.0 are trusted",
          "the harness is compiled into package pubsub from /repo's working tree (overlay), so it sees the code as it is now"],
    "C11": ["generated protobuf Marshal/Size in pb/ are trusted (used by the oracle to canonicalise content)"],
}

HOOK_COMMITS = ["407c3ed"]

META = {
    "C10": {
        "text": "Model-based property testing: hundreds of thousands of generated (parameter set, event history) pairs compared event by "
                "event against an independent reference implementation of the v1.1 score; finds any altered term, cap, window, "
                "activation, decay or retention rule reachable within ~70 events, 4 peers, 3 topics; does not prove absence.",
        "note": "Trusts the reference model (written from the specification), rapid, synctest's virtual clock; float comparison with relative tolerance 1e-9.",
        "technique": "model-based property testing (rapid histories vs independent reference score model, interval oracle)",
    },
    "C15": {
        "text": "Bounded-exhaustive sequential enumeration (complete for the stated bound) plus generated concurrent histories judged "
                "at quiescence plus one forced interleaving (the cancel-versus-wait window); finds order, capacity, conservation, "
                "error-reporting and lost-wake-up defects inside those bounds; concurrency beyond the generated schedules is not covered.",
        "note": "Trusts testing/synctest, rapid, and the reference FIFO model (60 lines); the forced case needs the verif build tag hook.",
        "technique": "bounded-exhaustive model-based testing + stateful property-based testing under synctest + forced-schedule fault injection",
    },
    "C11": {
        "text": "Generated-input search (rapid, thousands to hundreds of thousands of structured RPC x limit cases) against a "
                "round-trip oracle over canonical content; finds any loss, duplication, reordering, oversize or empty fragment "
                "reachable by the generator; does not prove absence.",
        "note": "Trusts the generated protobuf Size/Marshal code, rapid and the Go runtime; explores RPC shapes up to 12 messages, "
                "8 subscriptions, ~25 ids per control entry and limits 8..4096.",
        "technique": "property-based testing (rapid) with round-trip oracle on RPC.split; sendRPC drop accounting on a direct-driven node",
    },
}
