#!/usr/bin/env python3
"""Sensitivity tooling: apply a deliberate break to /repo's working tree, run a check, undo the break.

  tools/trymut.py <ID> [--tier quick] [--seed N] --patch file.diff
  tools/trymut.py <ID> --sub 'path:::old text:::new text' [--sub ...]

/repo must be clean before; it is restored with `git checkout -- .` afterwards. Replays and evidence of the
run go to a scratch directory, not to /verif/replays or /verif/evidence. Prints CAUGHT / MISSED.
"""
import argparse, os, subprocess, sys, tempfile, shutil
VERIF = os.path.dirname(os.path.dirname(os.path.abspath(__file__)))
REPO = "/repo"
ap = argparse.ArgumentParser()
ap.add_argument("prop")
ap.add_argument("--tier", default="quick")
ap.add_argument("--seed", default="1")
ap.add_argument("--patch")
ap.add_argument("--sub", action="append", default=[])
ap.add_argument("--keep", action="store_true")
a = ap.parse_args()
st = subprocess.run(["git", "-C", REPO, "status", "--porcelain"], capture_output=True, text=True).stdout.strip()
if st:
    print("refusing: /repo not clean:\n" + st); sys.exit(3)
scratch = tempfile.mkdtemp(prefix="vfmut-")
try:
    if a.patch:
        r = subprocess.run(["git", "-C", REPO, "apply", "--3way", os.path.abspath(a.patch)], capture_output=True, text=True)
        if r.returncode != 0:
            r = subprocess.run(["git", "-C", REPO, "apply", os.path.abspath(a.patch)], capture_output=True, text=True)
        if r.returncode != 0:
            print("patch does not apply:\n" + r.stderr); sys.exit(3)
    for s in a.sub:
        path, old, new = s.split(":::")
        fp = os.path.join(REPO, path)
        txt = open(fp).read()
        if txt.count(old) != 1:
            print("substitution target occurs %d times in %s" % (txt.count(old), path)); sys.exit(3)
        open(fp, "w").write(txt.replace(old, new))
    env = dict(os.environ, VERIF_REPLAYS_DIR=os.path.join(scratch, "replays"), VERIF_EVIDENCE_DIR=os.path.join(scratch, "evidence"), VERIF_SEED=a.seed)
    r = subprocess.run([sys.executable, os.path.join(VERIF, "check.py"), "run", a.prop, a.tier], env=env, capture_output=True, text=True)
    out = r.stdout + r.stderr
    print(out[-2500:])
    print("RESULT %s exit=%d -> %s" % (a.prop, r.returncode, {0: "MISSED", 1: "CAUGHT"}.get(r.returncode, "INFRA")))
    sys.exit(0 if r.returncode == 1 else 1)
finally:
    subprocess.run(["git", "-C", REPO, "reset", "-q"], capture_output=True)
    subprocess.run(["git", "-C", REPO, "checkout", "--", "."], capture_output=True)
    if not a.keep:
        shutil.rmtree(scratch, ignore_errors=True)
