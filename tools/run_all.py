#!/usr/bin/env python3
"""Run every claimed check at the given tier for the given seeds and summarise: tools/run_all.py quick 1 2 3"""
import json, os, subprocess, sys, time
VERIF = os.path.dirname(os.path.dirname(os.path.abspath(__file__)))
tier = sys.argv[1]
seeds = sys.argv[2:] or ["1"]
man = json.load(open(os.path.join(VERIF, "MANIFEST.json")))
ids = [c["property_id"] if "property_id" in c else c["id"] for c in man["checks"]]
only = os.environ.get("ONLY")
if only:
    ids = [i for i in ids if i in only.split(",")]
bad = 0
for seed in seeds:
    for pid in ids:
        t0 = time.time()
        env = dict(os.environ, VERIF_SEED=seed)
        if os.environ.get("SCRATCH_EVIDENCE"):
            env["VERIF_EVIDENCE_DIR"] = os.environ["SCRATCH_EVIDENCE"]
        r = subprocess.run([sys.executable, os.path.join(VERIF, "check.py"), "run", pid, tier], env=env, capture_output=True, text=True)
        out = (r.stdout + r.stderr).strip().splitlines()
        last = out[-1] if out else ""
        flag = "" if r.returncode == 0 and not any(l.startswith("VIOLATION") for l in out) else "   <<<<<<<< ATTENTION"
        if flag:
            bad += 1
        print("seed=%s %s exit=%d %.0fs %s%s" % (seed, pid, r.returncode, time.time() - t0, last[:160], flag), flush=True)
        if flag:
            print("\n".join(out[-12:])[:3000], flush=True)
print("DONE bad=%d" % bad)
