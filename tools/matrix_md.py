#!/usr/bin/env python3
"""Print seeded/MATRIX.json as the markdown table used in DESIGN.md §11.6."""
import json, os
VERIF = os.path.dirname(os.path.dirname(os.path.abspath(__file__)))
m = json.load(open(os.path.join(VERIF, "seeded", "MATRIX.json")))
print("| change | breaks | needs (author's words, shortened) | result of the quick check(s) | violation keys reported |")
print("|--------|--------|-----------------------------------|------------------------------|-------------------------|")
for sid in sorted(m):
    row = m[sid]
    meta = json.load(open(os.path.join(VERIF, "seeded", sid, "meta.json")))
    needs = (meta.get("needs_to_manifest") or "").replace("|", "/").replace("\n", " ")
    if len(needs) > 110:
        needs = needs[:107] + "..."
    res = "; ".join("%s: %s" % (p, {"CAUGHT": "caught", "MISSED": "not caught", "INFRA": "inconclusive (exit 2)"}.get(v["result"], v["result"])) for p, v in row["checks"].items())
    keys = sorted({k.rstrip("]") for v in row["checks"].values() for k in v["keys"]})
    print("| %s | %s | %s | %s | %s |" % (sid, row["property"], needs, res, ", ".join("`%s`" % k for k in keys[:4])))
