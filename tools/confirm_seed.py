#!/usr/bin/env python3
"""Confirm a seeded change independently and keep it under /verif/seeded/<id>/.

  tools/confirm_seed.py <id> <srcdir> <property> [--needs "..."] [--skip-suite]

<srcdir> holds patch.diff, demo_test.go (first line comment names its place in the tree) and notes.md as written by
a mutation-author sub-agent. In a scratch worktree of /repo's HEAD (outside /repo and /verif, removed afterwards):
  1. the patch applies and the tree builds,
  2. the whole existing suite passes with the change,
  3. the demonstration fails with the change,
  4. the demonstration passes without it.
Writes seeded/<id>/{patch.diff,demo_test.go,notes.md,meta.json,confirm.log}.
"""
import argparse, json, os, re, shutil, subprocess, sys, time

VERIF = os.path.dirname(os.path.dirname(os.path.abspath(__file__)))
ap = argparse.ArgumentParser()
ap.add_argument("id")
ap.add_argument("src")
ap.add_argument("prop")
ap.add_argument("--needs", default="")
ap.add_argument("--skip-suite", action="store_true")
a = ap.parse_args()

wt = "/tmp/cs-" + a.id
env = dict(os.environ, GOFLAGS="-mod=mod", GOPROXY="off")
env.pop("GOSUMDB", None)
log = []


def run(cmd, cwd=wt, timeout=3000):
    t0 = time.time()
    p = subprocess.run(cmd, cwd=cwd, env=env, stdout=subprocess.PIPE, stderr=subprocess.STDOUT, text=True, timeout=timeout, shell=isinstance(cmd, str))
    log.append("$ %s   [exit %d, %.0fs]\n%s\n" % (cmd if isinstance(cmd, str) else " ".join(cmd), p.returncode, time.time() - t0, p.stdout[-3000:]))
    if p.returncode != 0 and len(p.stdout) > 3000:
        # keep the whole output of a failing long command (e.g. which test was running when the suite timed out)
        open("/tmp/confirm-%s-fail-%d.log" % (a.id, len(log)), "w").write(p.stdout)
    return p.returncode, p.stdout


subprocess.run(["git", "-C", "/repo", "worktree", "remove", "--force", wt], capture_output=True)
subprocess.run(["git", "-C", "/repo", "worktree", "add", "-q", "--detach", wt, "HEAD"], check=True)
res = {"id": a.id, "property": a.prop, "repo_head": subprocess.run(["git", "-C", "/repo", "rev-parse", "--short", "HEAD"], capture_output=True, text=True).stdout.strip()}
ok = False
try:
    patch = os.path.join(a.src, "patch.diff")
    if os.path.exists(os.path.join(a.src, "patch.rebased.diff")):
        patch = os.path.join(a.src, "patch.rebased.diff")  # same change carried onto the current HEAD by hand
        res["rebased_by_hand"] = True
    rc, out = run(["git", "apply", "--3way", patch])
    if rc != 0:
        rc, out = run(["git", "apply", patch])
    res["applies"] = rc == 0
    if rc != 0:
        raise SystemExit("patch does not apply")
    run("git reset -q")
    # refreshed diff against current HEAD (the author's base may predate later fix: commits)
    rc, diff = run("git diff")
    demo_src = open(os.path.join(a.src, "demo_test.go")).read()
    first = demo_src.splitlines()[0]
    m = re.search(r"([\w/\.-]+_test\.go)", first)
    place = m.group(1) if m else "vf_seed_demo_test.go"
    mrun = re.search(r"-run\s+'?\"?([^'\"\s]+)", first)
    runpat = mrun.group(1) if mrun else "."
    pkg = "./" + os.path.dirname(place) if os.path.dirname(place) else "."
    res["demo_place"], res["demo_run"], res["demo_pkg"] = place, runpat, pkg
    rc, out = run(["go", "build", "./..."])
    res["builds"] = rc == 0
    if not a.skip_suite:
        rc, out = run(["go", "test", "-vet=off", "-count=1", "-timeout", "25m", "./..."])
        res["suite_passes_with_change"] = rc == 0
    shutil.copy(os.path.join(a.src, "demo_test.go"), os.path.join(wt, place))
    fails = 0
    for i in range(3):
        rc, out = run(["go", "test", "-vet=off", "-count=1", "-run", runpat, pkg], timeout=900)
        fails += rc != 0
    res["demo_fails_with_change"] = "%d/3" % fails
    run(["git", "checkout", "--", "."])
    passes = 0
    for i in range(3):
        rc, out = run(["go", "test", "-vet=off", "-count=1", "-run", runpat, pkg], timeout=900)
        passes += rc == 0
    res["demo_passes_without_change"] = "%d/3" % passes
    ok = res["builds"] and res.get("suite_passes_with_change", True) and fails == 3 and passes == 3
    res["confirmed"] = bool(ok)
    dst = os.path.join(VERIF, "seeded", a.id)
    os.makedirs(dst, exist_ok=True)
    open(os.path.join(dst, "patch.diff"), "w").write(diff)
    shutil.copy(os.path.join(a.src, "demo_test.go"), os.path.join(dst, "demo_test.go"))
    if os.path.exists(os.path.join(a.src, "notes.md")):
        shutil.copy(os.path.join(a.src, "notes.md"), os.path.join(dst, "notes.md"))
    meta = {"id": a.id, "breaks_property": a.prop, "needs_to_manifest": a.needs, "author": "independent sub-agent given only the property text",
            "confirmation": res,
            "what_was_run": ["git apply patch.diff in a scratch worktree of /repo HEAD", "go build ./...",
                             "go test -vet=off -count=1 -timeout 25m ./...  (whole existing suite, with the change)",
                             "go test -run %s %s  x3 with the change (must fail) and x3 without (must pass)" % (runpat, pkg)]}
    json.dump(meta, open(os.path.join(dst, "meta.json"), "w"), indent=1)
    open(os.path.join(dst, "confirm.log"), "w").write("\n".join(log)[-20000:])
finally:
    subprocess.run(["git", "-C", "/repo", "worktree", "remove", "--force", wt], capture_output=True)
    shutil.rmtree(wt, ignore_errors=True)
print(json.dumps(res))
sys.exit(0 if ok else 1)
