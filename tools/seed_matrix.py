#!/usr/bin/env python3
"""Run every kept seeded change against the quick check of the property it breaks (and of related properties)
and write seeded/MATRIX.json: which checks catch which changes.

  tools/seed_matrix.py [ids...]

Each change is applied to /repo's working tree (patch.rebased.diff when the fix commits moved the context of
patch.diff), the check is run with scratch replay / evidence directories, and the tree is restored.
"""
import json, os, subprocess, sys, time, re
VERIF = os.path.dirname(os.path.dirname(os.path.abspath(__file__)))
SEEDED = os.path.join(VERIF, "seeded")
EXTRA = {"C01-a": ["C05"], "C01-b": ["C05"], "C01-d": ["C05"], "C16-c": ["C15"], "C01-f": ["C02"], "C08-e": ["C07"], "C12-f": ["C14"]}  # related checks worth running too
ids = sys.argv[1:] or sorted(d for d in os.listdir(SEEDED) if os.path.isdir(os.path.join(SEEDED, d)))
mpath = os.path.join(SEEDED, "MATRIX.json")
matrix = json.load(open(mpath)) if os.path.exists(mpath) else {}
head = subprocess.run(["git", "-C", "/repo", "rev-parse", "--short", "HEAD"], capture_output=True, text=True).stdout.strip()
for sid in ids:
    d = os.path.join(SEEDED, sid)
    meta = json.load(open(os.path.join(d, "meta.json")))
    prop = meta.get("breaks_property") or sid.split("-")[0]
    patch = os.path.join(d, "patch.rebased.diff")
    if not os.path.exists(patch):
        patch = os.path.join(d, "patch.diff")
    row = {"property": prop, "patch": os.path.basename(patch), "repo_head": head, "checks": {}}
    for p in [prop] + EXTRA.get(sid, []):
        t0 = time.time()
        r = subprocess.run([sys.executable, os.path.join(VERIF, "tools", "trymut.py"), p, "--patch", patch], capture_output=True, text=True)
        out = r.stdout + r.stderr
        m = re.search(r"RESULT \S+ exit=(-?\d+) -> (\w+)", out)
        res = m.group(2) if m else ("NOAPPLY" if "does not apply" in out else "ERROR")
        keys = sorted(set(re.findall(r"key=(\S+)", out)))
        row["checks"][p] = {"result": res, "keys": keys[:6], "wall_s": round(time.time() - t0, 1)}
        print(sid, p, res, keys[:3], flush=True)
    matrix[sid] = row
    json.dump(matrix, open(mpath, "w"), indent=1, sort_keys=True)
