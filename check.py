#!/usr/bin/env python3
"""Driver of the /verif property-based testing framework for go-libp2p-pubsub (see DESIGN.md §2).

  python3 check.py setup                      build the harness test binary from /repo's working tree
  python3 check.py run <ID> <quick|thorough>  run one property's check; writes evidence/<ID>.json
  python3 check.py replay <file>              re-execute a stored case, bypassing rapid
  python3 check.py list                       list properties and their parts

Exit codes of `run`: 0 = property held on everything explored (KNOWN-FINDING lines possible),
1 = at least one `VIOLATION property=<id> replay=<path>` line, 2 = infrastructure problem / inconclusive.
"""
import re
import fcntl
import glob
import hashlib
import json
import os
import shutil
import subprocess
import sys
import time

VERIF = os.path.dirname(os.path.abspath(__file__))
REPO = os.environ.get("VERIF_REPO", "/repo")
BUILD = os.path.join(VERIF, "build")
HARNESS = os.path.join(VERIF, "harness", "pubsub")
GO125 = "/root/go/pkg/mod/golang.org/toolchain@v0.0.1-go1.25.0.linux-amd64/bin/go"
TAGS = "verif"
# scratch overrides used by the sensitivity tooling (tools/trymut.py) so that runs against deliberately broken
# trees pollute neither replays/ nor evidence/
REPLAYS = os.environ.get("VERIF_REPLAYS_DIR", os.path.join(VERIF, "replays"))
EVIDENCE = os.environ.get("VERIF_EVIDENCE_DIR", os.path.join(VERIF, "evidence"))

sys.path.insert(0, VERIF)
from parts import PARTS, LEVEL, RULES, ASSUMPTIONS  # noqa: E402


def log(*a):
    print(*a, flush=True)


# --------------------------------------------------------------------------------------------------
# build

def go_env():
    env = dict(os.environ)
    env["GOFLAGS"] = "-mod=mod"
    env["GOPROXY"] = "off"
    env.pop("GOSUMDB", None)  # GOSUMDB=off breaks the offline toolchain switch to go1.25.0
    env.setdefault("GOTOOLCHAIN", "auto")
    if env["GOTOOLCHAIN"] == "local":
        env["GOTOOLCHAIN"] = "auto"
    return env


def go_cmd():
    # plain `go` in /repo auto-switches to the cached go1.25.0 toolchain (same as the baseline);
    # fall back to that toolchain's binary directly.
    return shutil.which("go") or GO125


def tree_hash():
    h = hashlib.sha256()
    files = []
    for root, dirs, names in os.walk(REPO):
        dirs[:] = [d for d in dirs if d not in (".git", "testdata")]
        for n in names:
            if n.endswith(".go") or n in ("go.mod", "go.sum"):
                files.append(os.path.join(root, n))
    for root, dirs, names in os.walk(os.path.join(VERIF, "harness")):
        for n in names:
            files.append(os.path.join(root, n))
    files.sort()
    for f in files:
        h.update(f.encode())
        try:
            with open(f, "rb") as fh:
                h.update(hashlib.sha256(fh.read()).digest())
        except OSError:
            h.update(b"?")
    h.update(TAGS.encode())
    return h.hexdigest()


def build(fuzz=None):
    """(Re)build build/pubsub.test from /repo's current working tree + the overlaid harness files.
    fuzz=<FuzzName>: build the coverage-instrumented binary build/pubsub.fuzz-<FuzzName>.test instead."""
    os.makedirs(BUILD, exist_ok=True)
    lock = open(os.path.join(BUILD, ".lock"), "w")
    fcntl.flock(lock, fcntl.LOCK_EX)
    try:
        want = tree_hash()
        out = os.path.join(BUILD, "pubsub.test" if not fuzz else "pubsub.fuzz-%s.test" % fuzz)
        stamp = out + ".stamp"
        if os.path.exists(out) and os.path.exists(stamp) and open(stamp).read() == want:
            return out
        t0 = time.time()
        # modfile = /repo/go.mod + rapid; go.sum next to it
        mod = open(os.path.join(REPO, "go.mod")).read()
        mod += "\nrequire pgregory.net/rapid v1.3.0\n"
        open(os.path.join(BUILD, "go.mod"), "w").write(mod)
        gosum = open(os.path.join(REPO, "go.sum")).read()
        gosum += open(os.path.join(VERIF, "harness", "rapid.sum")).read()
        open(os.path.join(BUILD, "go.sum"), "w").write(gosum)
        repl = {}
        for f in sorted(os.listdir(HARNESS)):
            if f.endswith(".go"):
                repl[os.path.join(REPO, f)] = os.path.join(HARNESS, f)
        json.dump({"Replace": repl}, open(os.path.join(BUILD, "overlay.json"), "w"), indent=1)
        cmd = [go_cmd(), "test", "-c", "-vet=off", "-tags", TAGS,
               "-modfile=" + os.path.join(BUILD, "go.mod"),
               "-overlay=" + os.path.join(BUILD, "overlay.json"),
               "-o", out + ".tmp", "."]
        if fuzz:
            cmd[3:3] = ["-fuzz=^%s$" % fuzz]
        p = subprocess.run(cmd, cwd=REPO, env=go_env(), stdout=subprocess.PIPE, stderr=subprocess.STDOUT, text=True)
        if p.returncode != 0 and os.path.exists(GO125):
            env = go_env()
            env["GOTOOLCHAIN"] = "local"
            cmd[0] = GO125
            p = subprocess.run(cmd, cwd=REPO, env=env, stdout=subprocess.PIPE, stderr=subprocess.STDOUT, text=True)
        if p.returncode != 0:
            log("BUILD FAILED (infrastructure, exit 2):")
            log(p.stdout[-6000:])
            if os.path.exists(stamp):
                os.remove(stamp)
            raise SystemExit(2)
        os.replace(out + ".tmp", out)
        open(stamp, "w").write(want)
        log("built %s in %.1fs" % (out, time.time() - t0))
        return out
    finally:
        fcntl.flock(lock, fcntl.LOCK_UN)
        lock.close()


# --------------------------------------------------------------------------------------------------
# seeds

def splitmix64(x):
    x = (x + 0x9E3779B97F4A7C15) & 0xFFFFFFFFFFFFFFFF
    z = x
    z = ((z ^ (z >> 30)) * 0xBF58476D1CE4E5B9) & 0xFFFFFFFFFFFFFFFF
    z = ((z ^ (z >> 27)) * 0x94D049BB133111EB) & 0xFFFFFFFFFFFFFFFF
    return z ^ (z >> 31)


def shard_seed(seed, prop, test, shard):
    h = int.from_bytes(hashlib.sha256(("%s/%s/%d" % (prop, test, shard)).encode()).digest()[:8], "big")
    s = splitmix64((seed & 0xFFFFFFFFFFFFFFFF) ^ h) & 0x7FFFFFFFFFFFFFFF
    return s or 1  # rapid treats 0 as "random"


# --------------------------------------------------------------------------------------------------
# findings

def load_findings():
    p = os.path.join(VERIF, "known_findings.json")
    if not os.path.exists(p):
        return []
    return json.load(open(p))["findings"]


# --------------------------------------------------------------------------------------------------
# running the binary

def run_binary(binary, test, rundir, env_extra, args, timeout):
    os.makedirs(rundir, exist_ok=True)
    env = dict(os.environ)
    env.update(env_extra)
    env["VF_OUT"] = rundir
    env.setdefault("GODEBUG", "randseednop=0")
    cmd = [binary, "-test.run", "^%s$" % test, "-test.count=1"] + args
    t0 = time.time()
    try:
        p = subprocess.run(cmd, cwd=rundir, env=env, stdout=subprocess.PIPE, stderr=subprocess.STDOUT,
                           text=True, errors="replace", timeout=timeout)
        return p.returncode, p.stdout, time.time() - t0
    except subprocess.TimeoutExpired as e:
        out = e.stdout or ""
        if isinstance(out, bytes):
            out = out.decode(errors="replace")
        return -9, out + "\n[driver] timed out after %ds" % timeout, time.time() - t0


def replay_case(binary, path, rundir, runs=None, timeout=600):
    cf = json.load(open(path))
    env = {"VF_REPLAY": os.path.abspath(path)}
    if runs:
        env["VF_REPLAY_RUNS"] = str(runs)
    elif "replay_runs" in cf:
        env["VF_REPLAY_RUNS"] = str(cf["replay_runs"])
    if cf.get("params"):
        env["VF_PARAMS"] = cf["params"]
    rc, out, _ = run_binary(binary, cf["test"], rundir, env, ["-test.timeout=%ds" % timeout], timeout + 30)
    keys = []
    for line in out.splitlines():
        if line.startswith("VF-REPLAY-VIOLATION "):
            k = line.split("key=", 1)[1].split(" ", 1)[0]
            keys.append((k, line))
    done = any(l.startswith("VF-REPLAY-DONE") for l in out.splitlines())
    crashed = (not done) and ("panic:" in out or "fatal error:" in out or "VF-STALL-LOCK:" in out)
    return keys, done, crashed, out


def save_replay(prop, src_json_path=None, obj=None):
    d = os.path.join(REPLAYS, prop)
    os.makedirs(d, exist_ok=True)
    if obj is None:
        obj = json.load(open(src_json_path))
    b = json.dumps(obj, indent=1, sort_keys=True).encode()
    name = hashlib.sha256(json.dumps(obj.get("case"), sort_keys=True).encode()).hexdigest()[:16] + ".json"
    path = os.path.join(d, name)
    open(path, "wb").write(b)
    return path


def cmd_run(prop, tier):
    if prop not in PARTS:
        log("unknown property", prop)
        return 2
    t_start = time.time()
    seed = int(os.environ.get("VERIF_SEED", "1") or "1")
    binary = build()
    rundir = os.path.join(BUILD, "run", "%s-%s-%d" % (prop, tier, os.getpid()))
    if os.path.exists(rundir):
        shutil.rmtree(rundir)
    os.makedirs(rundir)

    violations = []   # (replay path, message)
    infra = []
    known_keys = []
    known_lines = []

    # 1. open findings of this property: witness still violating? -> KNOWN-FINDING + excuse that key
    findings = [f for f in load_findings() if f["property"] == prop]
    for i, f in enumerate(findings):
        wpath = os.path.join(VERIF, f["witness"])
        keys, done, crashed, out = replay_case(binary, wpath, os.path.join(rundir, "finding%d" % i))
        hit = [k for k, _ in keys if k == f["key"]]
        if f["status"] == "open":
            if hit:
                known_keys.append(f["key"])
                known_lines.append("KNOWN-FINDING: property=%s %s [key=%s]" % (prop, f["what"], f["key"]))
            elif not done and not crashed:
                infra.append("witness replay of %s did not complete:\n%s" % (f["key"], out[-2000:]))
            # other keys seen in a witness are not excused: the search below reports them if real
        else:  # fixed: suppresses nothing; the witness is a regression replay
            if keys or crashed:
                msg = keys[0][1] if keys else "crash replaying fixed-finding witness"
                violations.append((wpath, "regression of fixed finding %s: %s" % (f["key"], msg)))
            elif not done:
                infra.append("witness replay of fixed %s did not complete:\n%s" % (f["key"], out[-2000:]))
    for l in known_lines:
        log(l)

    # 2. replay tier: stored minimal failing cases of earlier runs
    for i, rp in enumerate(sorted(glob.glob(os.path.join(REPLAYS, prop, "*.json")))):
        keys, done, crashed, out = replay_case(binary, rp, os.path.join(rundir, "replay%d" % i))
        bad = [(k, l) for k, l in keys if k not in known_keys]
        if bad:
            violations.append((rp, bad[0][1]))
        elif crashed:
            violations.append((rp, "crash while replaying"))

    # 3. the search: shards of every part, in parallel
    parts = PARTS[prop]
    jobs = []
    for part in parts:
        cfg = part.get(tier) or part.get("quick")
        if cfg is None or cfg.get("skip"):
            continue
        shards = cfg.get("shards", 4)
        for s in range(shards):
            jobs.append((part, cfg, s, shards))
    procs = []
    maxpar = int(os.environ.get("VF_PAR", "16"))
    results = []

    def launch(job):
        part, cfg, s, shards = job
        test = part["test"]
        sd = os.path.join(rundir, "%s-s%d" % (test, s))
        os.makedirs(sd, exist_ok=True)
        env = dict(os.environ)
        env.update({"VF_TIER": tier, "VF_SEED": str(seed), "VF_STATS": os.path.join(sd, "stats.json"),
                    "VF_OUT": sd, "VF_KNOWN": ";".join(known_keys), "VF_SHARD": str(s), "VF_SHARDS": str(shards)})
        env.setdefault("GODEBUG", "randseednop=0")
        if part.get("inflight", part.get("kind", "rapid") == "rapid"):
            env["VF_INFLIGHT"] = "1"  # the case in progress is on disk, so a process that dies names its input
        params = dict(part.get("params", {}))
        params.update(cfg.get("params", {}))
        if params:
            env["VF_PARAMS"] = ",".join("%s=%s" % kv for kv in sorted(params.items()))
        if cfg.get("gomaxprocs"):
            gm = cfg["gomaxprocs"]
            env["GOMAXPROCS"] = str(gm[s % len(gm)])
        timeout = cfg.get("timeout", 600)
        args = ["-test.run", "^%s$" % test, "-test.count=1", "-test.timeout=%ds" % timeout]
        kind = part.get("kind", "rapid")
        use_binary = binary
        if kind == "fuzz" and cfg.get("fuzztime"):
            # native coverage-guided fuzzing (thorough tier): instrumented binary, fresh cache and corpus directories
            use_binary = build(fuzz=test)
            args = ["-test.run", "^$", "-test.fuzz", "^%s$" % test, "-test.fuzztime", os.environ.get("VF_FUZZTIME", cfg["fuzztime"]),
                    "-test.fuzzcachedir", os.path.join(sd, "fuzzcache"), "-test.timeout=%ds" % timeout, "-test.parallel", "16"]
        if kind == "rapid":
            checks = max(1, cfg["checks"] // shards)
            args += ["-rapid.checks=%d" % checks, "-rapid.seed=%d" % shard_seed(seed, prop, test, s),
                     "-rapid.nofailfile", "-rapid.shrinktime=%s" % cfg.get("shrinktime", "20s")]
            if cfg.get("steps"):
                args += ["-rapid.steps=%d" % cfg["steps"]]
        logf = open(os.path.join(sd, "out.log"), "w")
        p = subprocess.Popen([use_binary] + args, cwd=sd, env=env, stdout=logf, stderr=subprocess.STDOUT)
        return {"p": p, "job": job, "dir": sd, "t0": time.time(), "timeout": timeout + 60, "log": logf}

    pending = list(jobs)
    while pending or procs:
        while pending and len(procs) < maxpar:
            procs.append(launch(pending.pop(0)))
        time.sleep(0.05)
        for pr in list(procs):
            rc = pr["p"].poll()
            if rc is None:
                if time.time() - pr["t0"] > pr["timeout"]:
                    pr["p"].kill()
                    pr["p"].wait()
                    rc = -9
                else:
                    continue
            pr["log"].close()
            pr["rc"] = rc
            pr["wall"] = time.time() - pr["t0"]
            procs.remove(pr)
            results.append(pr)

    # 4. interpret shard results, merge statistics
    merged = {}
    for pr in results:
        part, cfg, s, shards = pr["job"]
        test = part["test"]
        sd = pr["dir"]
        out = open(os.path.join(sd, "out.log"), errors="replace").read()
        st_path = os.path.join(sd, "stats.json")
        if os.path.exists(st_path):
            try:
                for a in (json.load(open(st_path)) or []):
                    for k in ("labels", "excluded_known", "inconclusive"):
                        a[k] = a.get(k) or {}
                    a["samples"] = a.get("samples") or []
                    a["nt_hashes"] = a.get("nt_hashes") or []
                    m = merged.setdefault(a["test"], {"evaluations": 0, "nontrivial_evaluations": 0, "nt": set(),
                                                      "labels": {}, "samples": [], "excluded_known": {},
                                                      "inconclusive": {}, "violations": 0, "exhaustive": True,
                                                      "notes": {}, "shards": 0})
                    m["evaluations"] += a["evaluations"]
                    m["nontrivial_evaluations"] += a["nontrivial_evaluations"]
                    m["nt"].update(a["nt_hashes"])
                    for k, v in a["labels"].items():
                        m["labels"][k] = m["labels"].get(k, 0) + v
                    for k, v in a["excluded_known"].items():
                        m["excluded_known"][k] = m["excluded_known"].get(k, 0) + v
                    for k, v in a["inconclusive"].items():
                        m["inconclusive"][k] = m["inconclusive"].get(k, 0) + v
                    if len(m["samples"]) < 6:
                        m["samples"] += a["samples"][: max(1, 6 // max(1, shards))]
                    m["violations"] += a["violations"]
                    m["exhaustive"] = m["exhaustive"] and a.get("exhaustive", False)
                    m["notes"].update(a.get("notes") or {})
                    m["shards"] += 1
            except Exception as e:  # noqa: BLE001
                infra.append("bad stats file %s: %s" % (st_path, e))
        if part.get("kind") == "fuzz" and cfg.get("fuzztime"):
            # the coordinator's progress lines are the evidence of a native fuzzing campaign
            execs = [int(x) for x in re.findall(r"execs: (\d+)", out)]
            inter = [int(x) for x in re.findall(r"new interesting: \d+ \(total: (\d+)\)", out)]
            m = merged.setdefault(test, {"evaluations": 0, "nontrivial_evaluations": 0, "nt": set(), "labels": {}, "samples": [],
                                         "excluded_known": {}, "inconclusive": {}, "violations": 0, "exhaustive": False, "notes": {}, "shards": 0})
            if execs:
                m["evaluations"] += execs[-1]
                m["labels"]["native-fuzz-execs"] = execs[-1]
            if inter:
                # corpus entries kept by the fuzzer are distinct inputs that each reached new coverage
                for i in range(inter[-1]):
                    m["nt"].add("fuzz-corpus-%d" % i)
                m["labels"]["native-fuzz-interesting-inputs"] = inter[-1]
            m["notes"]["native_fuzz"] = "go test -fuzz, %s, 16 workers, fresh corpus + seed corpus; counts from the coordinator's log" % os.environ.get("VF_FUZZTIME", cfg["fuzztime"])
            m["shards"] += 1
            if not m["samples"]:
                m["samples"] = [{"seed_corpus": "see FuzzVfC12 in harness/pubsub/vf_c12_test.go"}]
            crashers = glob.glob(os.path.join(pr["dir"], "testdata", "fuzz", test, "*"))
            if crashers and not os.path.exists(os.path.join(pr["dir"], "lastfail-%s.json" % test)):
                cf = {"property": prop, "test": test, "case": {"native_fuzz_input": open(crashers[0], errors="replace").read()[:100000]},
                      "violations": [{"key": "%s/crash" % prop, "message": "native fuzzing crasher: " + out[-1500:], "step": -1}]}
                rp = save_replay(prop, obj=cf)
                violations.append((rp, "native fuzzing found a crasher (raw corpus file embedded in the replay)"))
                continue
        rc = pr["rc"]
        if rc == 0:
            continue
        lastfail = os.path.join(sd, "lastfail-%s.json" % test)
        inflight = os.path.join(sd, "inflight-%s.json" % test)
        if os.path.exists(lastfail):
            cf = json.load(open(lastfail))
            cf["params"] = os.environ.get("VF_PARAMS_USED", "")
            params = dict(part.get("params", {}))
            params.update(cfg.get("params", {}))
            cf["params"] = ",".join("%s=%s" % kv for kv in sorted(params.items()))
            if part.get("replay_runs"):
                cf["replay_runs"] = part["replay_runs"]
            cf["seed"] = seed
            cf["tier"] = tier
            rp = save_replay(prop, obj=cf)
            v = cf.get("violations") or [{}]
            violations.append((rp, "key=%s %s" % (v[0].get("key"), (v[0].get("message") or "")[:600])))
        elif rc != -9 and ("panic:" in out or "fatal error:" in out) and os.path.exists(inflight):
            cf = json.load(open(inflight))
            head = [l for l in out.splitlines() if l.startswith("panic:") or l.startswith("fatal error:")]
            key = "%s/crash" % prop
            cf["violations"] = [{"key": key, "message": "process crashed: %s" % (head[0] if head else "?"), "step": -1}]
            cf["crash_output_tail"] = out[-3000:]
            if key in known_keys:
                continue
            rp = save_replay(prop, obj=cf)
            violations.append((rp, cf["violations"][0]["message"]))
        elif "VF-STALL:" in out:
            i = out.index("VF-STALL:")
            m = re.search(r"VF-STALL-LOCK: (\S+)", out)
            if m and part.get("stall_is_violation") and os.path.exists(inflight):
                # this part's harness holds no lock across virtual time, so a call that waits for a lock for minutes
                # of real time waits for a lock that is never released
                cf = json.load(open(inflight))
                key = "%s/stalled-on-lock:%s" % (prop, m.group(1))
                cf["violations"] = [{"key": key, "message": "a library call has been waiting for a lock for minutes of real time (the lock is never released): %s" % m.group(1), "step": -1}]
                cf["crash_output_tail"] = out[i:i + 3000]
                if key in known_keys:
                    continue
                rp = save_replay(prop, obj=cf)
                violations.append((rp, "key=%s %s" % (key, cf["violations"][0]["message"])))
            else:
                infra.append("%s shard %d: a synctest bubble stalled in real time (inconclusive)\n%s" % (test, s, out[i:i + 2500]))
        elif rc == -9 or "panic: test timed out" in out:
            infra.append("%s shard %d: timed out (budget hit => inconclusive)\n%s" % (test, s, out[-1500:]))
        else:
            keep = os.path.join(BUILD, "last-infra-%s-s%d.log" % (test, s))
            try:
                open(keep, "w").write(out)
            except OSError:
                pass
            heads = [l for l in out.splitlines() if l.startswith(("panic:", "fatal error:", "runtime:", "signal:", "SIG"))][:5]
            infra.append("%s shard %d: exit %s without a captured case (full output kept in %s)\n%s\n%s" % (test, s, rc, keep, "\n".join(heads), out[-2000:]))

    # a part whose cases are mostly inconclusive (environment preconditions unmet) has not checked anything
    for test, m in merged.items():
        inc = sum(m["inconclusive"].values())
        if m["evaluations"] > 0 and inc * 2 > m["evaluations"]:
            infra.append("%s: %d of %d cases inconclusive: %s" % (test, inc, m["evaluations"], dict(list(m["inconclusive"].items())[:3])))

    # 5. evidence
    write_evidence(prop, tier, seed, merged, violations, infra, known_keys, time.time() - t_start)

    seen_rp = set()
    for rp, msg in violations:
        if rp in seen_rp:
            continue
        seen_rp.add(rp)
        log("VIOLATION property=%s replay=%s" % (prop, rp))
        log("  " + msg.replace("\n", "\n  ")[:3000])
    for m in infra:
        log("INFRA: " + m)
    if not os.environ.get("VF_KEEP"):
        shutil.rmtree(rundir, ignore_errors=True)
    if violations:
        return 1
    if infra:
        return 2
    tot = sum(m["evaluations"] for m in merged.values())
    nt = sum(len(m["nt"]) for m in merged.values())
    log("OK property=%s tier=%s seed=%d evaluations=%d distinct_nontrivial=%d wall=%.1fs" % (
        prop, tier, seed, tot, nt, time.time() - t_start))
    return 0


def write_evidence(prop, tier, seed, merged, violations, infra, known_keys, wall):
    os.makedirs(EVIDENCE, exist_ok=True)
    evaluations = sum(m["evaluations"] for m in merged.values())
    distinct_nt = sum(len(m["nt"]) for m in merged.values())
    samples = []
    parts = {}
    for test, m in sorted(merged.items()):
        for s in m["samples"][:3]:
            samples.append({"part": test, "case": s})
        parts[test] = {
            "evaluations": m["evaluations"],
            "nontrivial_evaluations": m["nontrivial_evaluations"],
            "distinct_nontrivial": len(m["nt"]),
            "labels": dict(sorted(m["labels"].items())),
            "excluded_known": m["excluded_known"],
            "inconclusive": m["inconclusive"],
            "exhaustive": bool(m["exhaustive"] and m["shards"] > 0 and any(
                p.get("kind") == "exhaustive" and p["test"] == test for p in PARTS[prop])),
            "notes": m["notes"],
            "shards": m["shards"],
        }
    ev = {
        "property_id": prop,
        "tier": tier,
        "seed": seed,
        "level": LEVEL.get(prop, "exploration"),
        "coverage": {
            "evaluations": evaluations,
            "distinct_nontrivial": distinct_nt,
            "rule": RULES.get(prop, ""),
            "samples": samples,
            "parts": parts,
            "exhaustive": bool(parts) and all(p["exhaustive"] for p in parts.values()),
            "known_finding_keys_excused": known_keys,
            "infrastructure_problems": infra[:5],
        },
        "assumptions": ASSUMPTIONS.get(prop, []) + ASSUMPTIONS.get("*", []),
        "wall_s": round(wall, 2),
        "violations": len(violations),
    }
    tmp = os.path.join(EVIDENCE, prop + ".json.tmp")
    json.dump(ev, open(tmp, "w"), indent=1)
    os.replace(tmp, os.path.join(EVIDENCE, prop + ".json"))


def cmd_replay(path):
    binary = build()
    rundir = os.path.join(BUILD, "run", "replay-%d" % os.getpid())
    keys, done, crashed, out = replay_case(binary, path, rundir)
    cf = json.load(open(path))
    log(out[-6000:])
    shutil.rmtree(rundir, ignore_errors=True)
    if keys or crashed:
        log("VIOLATION property=%s replay=%s" % (cf["property"], os.path.abspath(path)))
        return 1
    if not done:
        return 2
    log("replay passed: no violation in this tree")
    return 0


def main(argv):
    if len(argv) < 2:
        print(__doc__)
        return 2
    if argv[1] == "setup":
        build()
        return 0
    if argv[1] == "run":
        return cmd_run(argv[2], argv[3] if len(argv) > 3 else os.environ.get("VERIF_TIER", "quick"))
    if argv[1] == "replay":
        return cmd_replay(argv[2])
    if argv[1] == "list":
        for k, v in sorted(PARTS.items()):
            print(k, [p["test"] for p in v])
        return 0
    print(__doc__)
    return 2


if __name__ == "__main__":
    try:
        rc = main(sys.argv)
    except SystemExit:
        raise
    except BaseException:  # noqa: BLE001 - a bug in the driver is an infrastructure problem, never a violation
        import traceback
        traceback.print_exc()
        print("INFRA: the driver itself failed (exit 2)")
        rc = 2
    sys.exit(rc)
