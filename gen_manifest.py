#!/usr/bin/env python3
"""Regenerates MANIFEST.json from parts.py (single source of truth for what is claimed)."""
import json, os, sys
VERIF = os.path.dirname(os.path.abspath(__file__))
sys.path.insert(0, VERIF)
from parts import PARTS, META, HOOK_COMMITS  # noqa: E402

props = [json.loads(l) for l in open(os.path.join(VERIF, "properties.jsonl"))]
checks, na = [], []
for p in props:
    pid = p["id"]
    if pid in PARTS and pid in META:
        m = META[pid]
        checks.append({
            "property_id": pid,
            "quick_cmd": "python3 check.py run %s quick" % pid,
            "thorough_cmd": "python3 check.py run %s thorough" % pid,
            "evidence_file": "/verif/evidence/%s.json" % pid,
            "replay_cmd_template": "python3 check.py replay {path}",
            "engine": "vf-pbt",
            "level_claimed": {"category": m.get("category", "exploration"), "text": m["text"], "design_ref": "DESIGN.md §5 " + pid},
            "level_note": m["note"],
            "technique": m["technique"],
        })
    else:
        na.append({"property_id": pid, "reason": META.get(pid, {}).get("na_reason", "check not built yet (work in progress); not claimed until its check runs clean on the unchanged tree")})
man = {
    "version": 1,
    "setup_cmd": "python3 check.py setup",
    "hooks": {
        "guard": "verif",
        "enable": "go test -c -tags verif (check.py builds /repo's working tree with -tags verif, -overlay of /verif/harness/pubsub/*_test.go and a -modfile that adds pgregory.net/rapid)",
        "baseline_off_cmd": "cd /repo && go test -mod=mod -json -vet=off -count=1 -timeout 25m ./...",
        "source_commits": HOOK_COMMITS,
        "add_only": True,
    },
    "engines": [{"name": "vf-pbt", "path": "/verif/check.py", "serves_properties": [c["property_id"] for c in checks],
                 "kind_free_text": "property-based testing: pgregory.net/rapid generators + in-package Go interpreters with reference-model oracles under testing/synctest; bounded-exhaustive enumeration; Go native fuzzing in thorough tiers"}],
    "checks": checks,
    "not_applicable": na,
    "notes": "All checks rebuild the harness binary from /repo's current working tree (hash-stamped). Exit 0 pass / 1 VIOLATION / 2 infrastructure or inconclusive. known_findings.json lists open and fixed findings.",
}
json.dump(man, open(os.path.join(VERIF, "MANIFEST.json"), "w"), indent=1)
print("MANIFEST.json: %d checks, %d not claimed" % (len(checks), len(na)))
