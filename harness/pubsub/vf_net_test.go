package pubsub

// L2 harness ("NET", DESIGN §3): real nodes on full libp2p hosts over simnet inside one synctest bubble, plus
// skeleton peers (a libp2p host with hand-written stream handlers speaking raw length-prefixed protobuf) that can
// open, close and reset either stream direction and record what the node under test writes to them.
// comm.go, the stream goroutines, identify and the notifee all run for real here.

import (
	"context"
	"fmt"
	"net"
	"sort"
	"sync"
	"testing"
	"testing/synctest"
	"time"

	"github.com/libp2p/go-libp2p"
	pb "github.com/libp2p/go-libp2p-pubsub/pb"
	"github.com/libp2p/go-libp2p/core/host"
	"github.com/libp2p/go-libp2p/core/network"
	"github.com/libp2p/go-libp2p/core/peer"
	"github.com/libp2p/go-libp2p/core/protocol"
	"github.com/libp2p/go-libp2p/x/simlibp2p"
	"github.com/libp2p/go-msgio"
	"github.com/marcopolo/simnet"
)

type vfSim struct {
	t      *testing.T
	sim    *simnet.Simnet
	hosts  []host.Host
	nodes  []*vfSimNode
	base   time.Time
	ipIdx  map[string]int
	latMs  func(from, to int) int
	closed bool
}

type vfSimNode struct {
	idx    int
	h      host.Host
	id     peer.ID
	ps     *PubSub
	gs     *GossipSubRouter
	raw    *vfRaw
	ctx    context.Context
	cancel context.CancelFunc
	skel   *vfSkel
	psHost host.Host // what the PubSub instance is given as its host (default: h)
}

// vfSlowStreamHost delays NewStream by a fixed virtual time: stream negotiation that takes a while, as it does when
// the remote protocols are not known yet.
type vfSlowStreamHost struct {
	host.Host
	delay time.Duration
}

func (h *vfSlowStreamHost) NewStream(ctx context.Context, p peer.ID, pids ...protocol.ID) (network.Stream, error) {
	if h.delay > 0 {
		select {
		case <-time.After(h.delay):
		case <-ctx.Done():
			return nil, ctx.Err()
		}
	}
	return h.Host.NewStream(ctx, p, pids...)
}

// newVfSim builds n full hosts with the fixed identities vfPeer(0..n-1). latMs gives the one-way latency of the
// directed link from -> to in milliseconds (constant per link, so packets of one flow stay ordered).
func newVfSim(t *testing.T, n int, latMs func(from, to int) int) (*vfSim, error) {
	return newVfSimOpts(t, n, latMs, nil)
}

// newVfSimOpts: extra gives additional libp2p options per host (e.g. a recording connection manager).
func newVfSimOpts(t *testing.T, n int, latMs func(from, to int) int, extra func(i int) []libp2p.Option) (*vfSim, error) {
	s := &vfSim{t: t, base: time.Now(), ipIdx: map[string]int{}, latMs: latMs}
	s.sim = &simnet.Simnet{LatencyFunc: func(p *simnet.Packet) time.Duration {
		f, okf := s.ipIdx[vfAddrIP(p.From)]
		to, okt := s.ipIdx[vfAddrIP(p.To)]
		ms := 1
		if okf && okt && s.latMs != nil {
			ms = s.latMs(f, to)
		}
		if ms < 1 {
			ms = 1
		}
		return time.Duration(ms) * time.Millisecond
	}}
	link := simnet.NodeBiDiLinkSettings{
		Downlink: simnet.LinkSettings{BitsPerSecond: 20 * simlibp2p.OneMbps},
		Uplink:   simnet.LinkSettings{BitsPerSecond: 20 * simlibp2p.OneMbps},
	}
	for i := 0; i < n; i++ {
		ip := simnet.IntToPublicIPv4(i)
		s.ipIdx[ip.String()] = i
		hopts := []libp2p.Option{
			libp2p.Identity(vfPeer(i).Priv),
			libp2p.ListenAddrStrings(fmt.Sprintf("/ip4/%s/udp/8000/quic-v1", ip)),
			simlibp2p.QUICSimnet(s.sim, link),
			libp2p.DisableIdentifyAddressDiscovery(),
			libp2p.ResourceManager(&network.NullResourceManager{}),
		}
		if extra != nil {
			hopts = append(hopts, extra(i)...)
		}
		h, err := libp2p.New(hopts...)
		if err != nil {
			s.close()
			return nil, err
		}
		s.hosts = append(s.hosts, h)
		s.nodes = append(s.nodes, &vfSimNode{idx: i, h: h, id: h.ID()})
	}
	s.sim.Start()
	return s, nil
}

func vfAddrIP(a net.Addr) string {
	if u, ok := a.(*net.UDPAddr); ok {
		return u.IP.String()
	}
	h, _, err := net.SplitHostPort(a.String())
	if err != nil {
		return a.String()
	}
	return h
}

func (s *vfSim) now() time.Duration { return time.Since(s.base) }

// start creates the PubSub instance of node i.
func (s *vfSim) start(i int, router string, opts ...Option) error {
	nd := s.nodes[i]
	nd.raw = &vfRaw{base: s.base}
	nd.ctx, nd.cancel = context.WithCancel(context.Background())
	all := append([]Option{WithRawTracer(nd.raw)}, opts...)
	var err error
	h := nd.psHost
	if h == nil {
		h = nd.h
	}
	switch router {
	case "floodsub":
		nd.ps, err = NewFloodSub(nd.ctx, h, all...)
	case "randomsub":
		nd.ps, err = NewRandomSub(nd.ctx, h, 10, all...)
	default:
		nd.ps, err = NewGossipSub(nd.ctx, h, all...)
		if err == nil {
			nd.gs = nd.ps.rt.(*GossipSubRouter)
		}
	}
	if err != nil {
		nd.cancel()
		return err
	}
	nd.raw.idOf = nd.ps.idGen.ID
	return nil
}

func (s *vfSim) connect(i, j int) error {
	ctx, cancel := context.WithTimeout(context.Background(), 10*time.Second)
	defer cancel()
	return s.hosts[i].Connect(ctx, peer.AddrInfo{ID: s.hosts[j].ID(), Addrs: s.hosts[j].Addrs()})
}

func (s *vfSim) disconnect(i, j int) {
	s.hosts[i].Network().ClosePeer(s.hosts[j].ID())
}

func (s *vfSim) connected(i, j int) bool {
	return s.hosts[i].Network().Connectedness(s.hosts[j].ID()) == network.Connected &&
		s.hosts[j].Network().Connectedness(s.hosts[i].ID()) == network.Connected
}

// wait lets d of virtual time pass and then waits for quiescence.
func (s *vfSim) wait(d time.Duration) {
	time.Sleep(d)
	synctest.Wait()
}

// eval runs f inside node i's event loop.
func (s *vfSim) eval(i int, f func()) bool {
	nd := s.nodes[i]
	done := make(chan struct{})
	select {
	case nd.ps.eval <- func() { defer close(done); f() }:
		<-done
		return true
	case <-nd.ctx.Done():
		return false
	}
}

// pubsubPeers: the peers node i has an outbound queue for.
func (s *vfSim) pubsubPeers(i int) map[peer.ID]bool {
	out := map[peer.ID]bool{}
	s.eval(i, func() {
		for p := range s.nodes[i].ps.peers {
			out[p] = true
		}
	})
	return out
}

func (s *vfSim) idx(p peer.ID) int {
	for i, nd := range s.nodes {
		if nd.id == p {
			return i
		}
	}
	return -1
}

func (s *vfSim) close() {
	if s.closed {
		return
	}
	s.closed = true
	for _, nd := range s.nodes {
		if nd.cancel != nil {
			nd.cancel()
		}
	}
	synctest.Wait()
	for _, h := range s.hosts {
		h.Close()
	}
	if s.sim != nil {
		s.sim.Close()
	}
	// stragglers without a context arm end within a bounded virtual time
	for k := 0; k < 3; k++ {
		time.Sleep(2 * time.Second)
		synctest.Wait()
	}
}

// ---------------------------------------------------------------------------------------------------
// skeleton peer

type vfSkelRecv struct {
	At     time.Duration
	Stream int // ordinal of the inbound stream (the node's outbound stream) it arrived on
	RPC    *pb.RPC
}

type vfSkel struct {
	s   *vfSim
	idx int
	h   host.Host

	mu      sync.Mutex
	got     []vfSkelRecv
	in      []network.Stream // streams the remote side opened to us, in order
	inOpen  []bool
	inFrom  []peer.ID
	inAt    []time.Duration // when we accepted the stream
	refuse  bool // reset new inbound streams at once
	out     map[int]network.Stream
	outW    map[int]msgio.WriteCloser
	readers sync.WaitGroup
}

// skeleton turns host i into a skeleton peer answering on the given protocol IDs.
func (s *vfSim) skeleton(i int, protos ...protocol.ID) *vfSkel {
	k := &vfSkel{s: s, idx: i, h: s.hosts[i], out: map[int]network.Stream{}, outW: map[int]msgio.WriteCloser{}}
	s.nodes[i].skel = k
	for _, p := range protos {
		k.h.SetStreamHandler(p, k.handle)
	}
	return k
}

func (k *vfSkel) handle(st network.Stream) {
	k.mu.Lock()
	if k.refuse {
		k.mu.Unlock()
		st.Reset()
		return
	}
	n := len(k.in)
	k.in = append(k.in, st)
	k.inOpen = append(k.inOpen, true)
	k.inFrom = append(k.inFrom, st.Conn().RemotePeer())
	k.inAt = append(k.inAt, k.s.now())
	k.mu.Unlock()
	r := msgio.NewVarintReaderSize(st, DefaultMaxMessageSize)
	for {
		b, err := r.ReadMsg()
		if err != nil {
			r.ReleaseMsg(b)
			k.mu.Lock()
			k.inOpen[n] = false
			k.mu.Unlock()
			return
		}
		if len(b) > 0 {
			rpc := new(pb.RPC)
			if rpc.Unmarshal(b) == nil {
				k.mu.Lock()
				k.got = append(k.got, vfSkelRecv{At: k.s.now(), Stream: n, RPC: rpc})
				k.mu.Unlock()
			}
		}
		r.ReleaseMsg(b)
	}
}

// openOut opens our outbound stream to node `to`.
func (k *vfSkel) openOut(to int, proto protocol.ID) error {
	ctx, cancel := context.WithTimeout(context.Background(), 5*time.Second)
	defer cancel()
	st, err := k.h.NewStream(ctx, k.s.hosts[to].ID(), proto)
	if err != nil {
		return err
	}
	k.mu.Lock()
	k.out[to] = st
	k.outW[to] = msgio.NewVarintWriter(st)
	k.mu.Unlock()
	return nil
}

func (k *vfSkel) send(to int, rpc *pb.RPC) error {
	b, err := rpc.Marshal()
	if err != nil {
		return err
	}
	return k.sendRaw(to, b)
}

func (k *vfSkel) sendRaw(to int, b []byte) error {
	k.mu.Lock()
	w := k.outW[to]
	k.mu.Unlock()
	if w == nil {
		return fmt.Errorf("no outbound stream to %d", to)
	}
	return w.WriteMsg(b)
}

func (k *vfSkel) closeOut(to int, reset bool) {
	k.mu.Lock()
	st := k.out[to]
	delete(k.out, to)
	delete(k.outW, to)
	k.mu.Unlock()
	if st != nil {
		if reset {
			st.Reset()
		} else {
			st.Close()
		}
	}
}

// resetIn resets every open stream that peer `from` opened to us (its outbound pubsub streams).
func (k *vfSkel) resetIn(from int) int {
	k.mu.Lock()
	var sts []network.Stream
	for i, st := range k.in {
		if k.inOpen[i] && k.inFrom[i] == k.s.hosts[from].ID() {
			sts = append(sts, st)
		}
	}
	k.mu.Unlock()
	for _, st := range sts {
		st.Reset()
	}
	return len(sts)
}

func (k *vfSkel) setRefuse(v bool) {
	k.mu.Lock()
	k.refuse = v
	k.mu.Unlock()
}

func (k *vfSkel) openIn(from int) int {
	k.mu.Lock()
	defer k.mu.Unlock()
	c := 0
	for i := range k.in {
		if k.inOpen[i] && k.inFrom[i] == k.s.hosts[from].ID() {
			c++
		}
	}
	return c
}

func (k *vfSkel) received() []vfSkelRecv {
	k.mu.Lock()
	defer k.mu.Unlock()
	out := append([]vfSkelRecv(nil), k.got...)
	sort.SliceStable(out, func(i, j int) bool { return out[i].At < out[j].At })
	return out
}

func (k *vfSkel) hasOut(to int) bool {
	k.mu.Lock()
	defer k.mu.Unlock()
	return k.out[to] != nil
}

// foldFrom folds the subscription options received on the newest open stream from node `from`, in wire order
// (hello packet first): the view a real peer has of that node's interest. Also returns the number of open streams.
func (k *vfSkel) foldFrom(from int) (map[string]bool, int) {
	k.mu.Lock()
	defer k.mu.Unlock()
	latest, open := -1, 0
	for i := range k.in {
		if k.inOpen[i] && k.inFrom[i] == k.s.hosts[from].ID() {
			latest = i
			open++
		}
	}
	view := map[string]bool{}
	if latest < 0 {
		return view, 0
	}
	for _, r := range k.got {
		if r.Stream != latest {
			continue
		}
		for _, so := range r.RPC.GetSubscriptions() {
			if so.GetSubscribe() {
				view[so.GetTopicid()] = true
			} else {
				delete(view, so.GetTopicid())
			}
		}
	}
	return view, open
}

// streamAt: when the n-th inbound stream was accepted.
func (k *vfSkel) streamAt(n int) time.Duration {
	k.mu.Lock()
	defer k.mu.Unlock()
	if n < 0 || n >= len(k.inAt) {
		return -1
	}
	return k.inAt[n]
}

// writeBytes writes raw bytes (no framing) to our outbound stream to node `to`.
func (k *vfSkel) writeBytes(to int, b []byte) error {
	k.mu.Lock()
	st := k.out[to]
	k.mu.Unlock()
	if st == nil {
		return fmt.Errorf("no outbound stream to %d", to)
	}
	_, err := st.Write(b)
	return err
}

// reopenOut opens a second outbound stream to node `to` while the first stays open (as a peer does that respawns its
// writer without noticing that the old stream still lives); later writes use the new stream.
func (k *vfSkel) reopenOut(to int, proto protocol.ID) error {
	ctx, cancel := context.WithTimeout(context.Background(), 5*time.Second)
	defer cancel()
	st, err := k.h.NewStream(ctx, k.s.hosts[to].ID(), proto)
	if err != nil {
		return err
	}
	k.mu.Lock()
	k.out[to] = st // the old stream object is simply left open; closing the host ends it
	k.outW[to] = msgio.NewVarintWriter(st)
	k.mu.Unlock()
	return nil
}
