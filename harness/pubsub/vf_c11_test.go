package pubsub

// C11 — splitting an oversized RPC loses nothing and respects the size limit (DESIGN §5 C11).
// L0 part: RPC.split against a round-trip-by-canonical-content oracle.

import (
	"bytes"
	"fmt"
	"sort"
	"strconv"
	"strings"
	"testing"

	pb "github.com/libp2p/go-libp2p-pubsub/pb"
	"pgregory.net/rapid"
)

type c11Msg struct {
	Topic   int `json:"topic"` // topic length
	Data    int `json:"data"`  // data length
	WithSig bool `json:"sig,omitempty"`
}
type c11Sub struct {
	Topic int  `json:"topic"`
	Sub   bool `json:"sub"`
	Part  bool `json:"part,omitempty"`
}
type c11Prune struct {
	Topic   int   `json:"topic"`
	Peers   []int `json:"peers,omitempty"` // record length per PX peer
	Backoff int   `json:"backoff"`         // -1: absent
}
type c11IDs struct {
	Topic int   `json:"topic"` // IHAVE only; -1 = no topic field
	IDs   []int `json:"ids"`   // id lengths
}
type c11Partial struct {
	Topic, Group, Msg, Meta int
}
type c11Case struct {
	Limit   int         `json:"limit"`
	Msgs    []c11Msg    `json:"msgs,omitempty"`
	Subs    []c11Sub    `json:"subs,omitempty"`
	Ctl     bool        `json:"ctl"` // control message present (possibly empty)
	Graft   []int       `json:"graft,omitempty"`
	Prune   []c11Prune  `json:"prune,omitempty"`
	Ihave   []c11IDs    `json:"ihave,omitempty"`
	Iwant   []c11IDs    `json:"iwant,omitempty"`
	Idw     []c11IDs    `json:"idontwant,omitempty"`
	Ext     int         `json:"ext,omitempty"` // 0 none, 1 empty, 2 partial, 3 test, 4 both
	Partial *c11Partial `json:"partial,omitempty"`
	TestExt bool        `json:"testext,omitempty"`
}

// vfPad returns a string of exactly n bytes that embeds k so that distinct k give distinct strings
// whenever n is large enough to hold the number.
func vfPad(k, n int) string {
	s := strconv.FormatInt(int64(k), 36) + "."
	if len(s) >= n {
		return s[:n]
	}
	return s + strings.Repeat("x", n-len(s))
}

func c11GenSize(rt *rapid.T, limit int, name string) int {
	lo := limit - 12
	if lo < 0 {
		lo = 0
	}
	return rapid.OneOf(
		rapid.IntRange(0, 8),
		rapid.IntRange(0, 8),
		rapid.IntRange(0, limit/4+1),
		rapid.IntRange(lo, limit+12),
		rapid.IntRange(0, limit*3/2),
	).Draw(rt, name)
}

func c11GenSmall(rt *rapid.T, limit int, name string) int {
	return rapid.OneOf(
		rapid.IntRange(0, 8),
		rapid.IntRange(0, 8),
		rapid.IntRange(0, limit/8+1),
		rapid.IntRange(0, limit/2+1),
	).Draw(rt, name)
}

func c11GenIDs(rt *rapid.T, limit int, name string, withTopic bool) []c11IDs {
	n := rapid.IntRange(0, 4).Draw(rt, name+"N")
	var out []c11IDs
	for i := 0; i < n; i++ {
		e := c11IDs{Topic: -1}
		if withTopic {
			e.Topic = rapid.OneOf(rapid.IntRange(-1, 6), rapid.IntRange(0, limit/2+1)).Draw(rt, name+"T")
		}
		m := rapid.IntRange(0, 24).Draw(rt, name+"M")
		for j := 0; j < m; j++ {
			e.IDs = append(e.IDs, rapid.OneOf(rapid.IntRange(0, 12), rapid.IntRange(0, 40), rapid.IntRange(0, limit+8)).Draw(rt, name+"L"))
		}
		out = append(out, e)
	}
	return out
}

func c11Gen(rt *rapid.T) c11Case {
	var c c11Case
	c.Limit = rapid.OneOf(rapid.IntRange(8, 64), rapid.IntRange(64, 512), rapid.IntRange(512, 4096)).Draw(rt, "limit")
	kinds := rapid.IntRange(0, 1<<10-1).Draw(rt, "kinds") // which field kinds may be present
	has := func(bit int) bool { return kinds&(1<<bit) != 0 }
	if has(0) {
		n := rapid.IntRange(0, 12).Draw(rt, "nmsg")
		for i := 0; i < n; i++ {
			c.Msgs = append(c.Msgs, c11Msg{Topic: rapid.IntRange(0, 12).Draw(rt, "mt"), Data: c11GenSize(rt, c.Limit, "md"), WithSig: rapid.Bool().Draw(rt, "ms")})
		}
	}
	if has(1) {
		n := rapid.IntRange(0, 8).Draw(rt, "nsub")
		for i := 0; i < n; i++ {
			c.Subs = append(c.Subs, c11Sub{Topic: c11GenSmall(rt, c.Limit, "st"), Sub: rapid.Bool().Draw(rt, "ss"), Part: rapid.Bool().Draw(rt, "sp")})
		}
	}
	if has(2) {
		n := rapid.IntRange(0, 6).Draw(rt, "ngraft")
		for i := 0; i < n; i++ {
			c.Graft = append(c.Graft, c11GenSmall(rt, c.Limit, "gt"))
		}
	}
	if has(3) {
		n := rapid.IntRange(0, 5).Draw(rt, "nprune")
		for i := 0; i < n; i++ {
			p := c11Prune{Topic: c11GenSmall(rt, c.Limit, "pt"), Backoff: rapid.IntRange(-1, 300).Draw(rt, "pb")}
			np := rapid.IntRange(0, 3).Draw(rt, "pp")
			for j := 0; j < np; j++ {
				p.Peers = append(p.Peers, c11GenSmall(rt, c.Limit, "pr"))
			}
			c.Prune = append(c.Prune, p)
		}
	}
	if has(4) {
		c.Ihave = c11GenIDs(rt, c.Limit, "ihave", true)
	}
	if has(5) {
		c.Iwant = c11GenIDs(rt, c.Limit, "iwant", false)
	}
	if has(6) {
		c.Idw = c11GenIDs(rt, c.Limit, "idw", false)
	}
	if has(7) {
		c.Ext = rapid.IntRange(1, 4).Draw(rt, "ext")
	}
	if has(8) {
		c.Partial = &c11Partial{Topic: rapid.IntRange(0, 8).Draw(rt, "xt"), Group: rapid.IntRange(0, 8).Draw(rt, "xg"),
			Msg: c11GenSmall(rt, c.Limit, "xm"), Meta: c11GenSmall(rt, c.Limit, "xd")}
	}
	if has(9) {
		c.TestExt = true
	}
	c.Ctl = len(c.Graft)+len(c.Prune)+len(c.Ihave)+len(c.Iwant)+len(c.Idw) > 0 || c.Ext != 0 || rapid.Bool().Draw(rt, "emptyctl")
	// varint boundaries: messages whose encoded size sits exactly where the length prefix grows by a byte (127|128,
	// 16383|16384), packed under a limit that is a multiple of the per-message cost plus a small remainder, so that a
	// size estimate that is off by one byte per message overshoots the limit
	if rapid.IntRange(0, 7).Draw(rt, "varintMode") == 0 {
		target := rapid.SampledFrom([]int{126, 127, 128, 129, 127, 128, 129, 126, 127, 128, 129, 128, 16383, 16384, 16385, 16511, 16512}).Draw(rt, "target")
		topicLen := rapid.IntRange(0, 3).Draw(rt, "vt")
		dataLen := c11DataLenFor(target, topicLen)
		k := rapid.IntRange(1, 12).Draw(rt, "perFragment")
		if target > 1000 {
			k = 1 + k%4 // keep the large cases cheap
		}
		c.Msgs = nil
		nm := rapid.IntRange(k, 2*k+1).Draw(rt, "vn")
		if target > 1000 && nm > k+1 {
			nm = k + 1
		}
		for i := 0; i < nm; i++ {
			c.Msgs = append(c.Msgs, c11Msg{Topic: topicLen, Data: dataLen})
		}
		per := target + 2
		if target >= 16384 {
			per = target + 4
		}
		c.Limit = k*per + rapid.IntRange(-3, k+3).Draw(rt, "slack")
		if c.Limit < 8 {
			c.Limit = 8
		}
	}
	return c
}

// c11DataLenFor: the data length that makes a message (topic of topicLen bytes, 6-byte author, 8-byte sequence number)
// encode to exactly target bytes, found by measuring.
func c11DataLenFor(target, topicLen int) int {
	for n := 0; n <= target; n++ {
		t := vfPad(1, topicLen)
		m := &pb.Message{Topic: &t, Data: []byte(vfPad(2, n)), From: []byte(vfPad(3, 6)), Seqno: []byte(vfPad(4, 8))}
		if m.Size() >= target {
			return n
		}
	}
	return target
}

func c11Build(c c11Case) *RPC {
	k := 0
	next := func(n int) string { k++; return vfPad(k, n) }
	rpc := &RPC{}
	for _, m := range c.Msgs {
		t := next(m.Topic)
		pm := &pb.Message{Topic: &t, Data: []byte(next(m.Data)), From: []byte(next(6)), Seqno: []byte(next(8))}
		if m.WithSig {
			pm.Signature = []byte(next(16))
		}
		rpc.Publish = append(rpc.Publish, pm)
	}
	for _, s := range c.Subs {
		t := next(s.Topic)
		sub := s.Sub
		so := &pb.RPC_SubOpts{Topicid: &t, Subscribe: &sub}
		if s.Part {
			tr := true
			so.RequestsPartial = &tr
		}
		rpc.Subscriptions = append(rpc.Subscriptions, so)
	}
	if !c.Ctl {
		if c.Partial != nil {
			rpc.Partial = c11BuildPartial(c.Partial, next)
		}
		if c.TestExt {
			rpc.TestExtension = &pb.TestExtension{}
		}
		return rpc
	}
	ctl := &pb.ControlMessage{}
	for _, g := range c.Graft {
		t := next(g)
		ctl.Graft = append(ctl.Graft, &pb.ControlGraft{TopicID: &t})
	}
	for _, p := range c.Prune {
		t := next(p.Topic)
		pr := &pb.ControlPrune{TopicID: &t}
		if p.Backoff >= 0 {
			b := uint64(p.Backoff)
			pr.Backoff = &b
		}
		for _, l := range p.Peers {
			pr.Peers = append(pr.Peers, &pb.PeerInfo{PeerID: []byte(next(8)), SignedPeerRecord: []byte(next(l))})
		}
		ctl.Prune = append(ctl.Prune, pr)
	}
	for _, e := range c.Ihave {
		ih := &pb.ControlIHave{}
		if e.Topic >= 0 {
			t := next(e.Topic)
			ih.TopicID = &t
		}
		for _, l := range e.IDs {
			ih.MessageIDs = append(ih.MessageIDs, next(l))
		}
		ctl.Ihave = append(ctl.Ihave, ih)
	}
	for _, e := range c.Iwant {
		iw := &pb.ControlIWant{}
		for _, l := range e.IDs {
			iw.MessageIDs = append(iw.MessageIDs, next(l))
		}
		ctl.Iwant = append(ctl.Iwant, iw)
	}
	for _, e := range c.Idw {
		iw := &pb.ControlIDontWant{}
		for _, l := range e.IDs {
			iw.MessageIDs = append(iw.MessageIDs, next(l))
		}
		ctl.Idontwant = append(ctl.Idontwant, iw)
	}
	tr := true
	switch c.Ext {
	case 1:
		ctl.Extensions = &pb.ControlExtensions{}
	case 2:
		ctl.Extensions = &pb.ControlExtensions{PartialMessages: &tr}
	case 3:
		ctl.Extensions = &pb.ControlExtensions{TestExtension: &tr}
	case 4:
		ctl.Extensions = &pb.ControlExtensions{PartialMessages: &tr, TestExtension: &tr}
	}
	rpc.Control = ctl
	if c.Partial != nil {
		rpc.Partial = c11BuildPartial(c.Partial, next)
	}
	if c.TestExt {
		rpc.TestExtension = &pb.TestExtension{}
	}
	return rpc
}

func c11BuildPartial(p *c11Partial, next func(int) string) *pb.PartialMessagesExtension {
	t := next(p.Topic)
	return &pb.PartialMessagesExtension{TopicID: &t, GroupID: []byte(next(p.Group)), PartialMessage: []byte(next(p.Msg)), PartsMetadata: []byte(next(p.Meta))}
}

// c11Content is the canonical content of one or several RPCs.
type c11Content struct {
	msgs  []string            // sequence of marshalled messages
	multi map[string][]string // kind -> multiset (as sorted list at comparison time)
	once  map[string][]string // kind -> marshalled occurrences (extensions / partial / testext)
	elems int                 // number of elements (for the size rule)
	emptyIhave int
}

func newC11Content() *c11Content {
	return &c11Content{multi: map[string][]string{}, once: map[string][]string{}}
}

type vfMarshaler interface{ Marshal() ([]byte, error) }

func vfMustMarshal(m vfMarshaler) string {
	b, err := m.Marshal()
	if err != nil {
		panic(err)
	}
	return string(b)
}

func (c *c11Content) add(r *pb.RPC) {
	for _, m := range r.Publish {
		c.msgs = append(c.msgs, vfMustMarshal(m))
		c.elems++
	}
	for _, s := range r.Subscriptions {
		c.multi["sub"] = append(c.multi["sub"], vfMustMarshal(s))
		c.elems++
	}
	if ctl := r.Control; ctl != nil {
		for _, g := range ctl.Graft {
			c.multi["graft"] = append(c.multi["graft"], vfMustMarshal(g))
			c.elems++
		}
		for _, p := range ctl.Prune {
			c.multi["prune"] = append(c.multi["prune"], vfMustMarshal(p))
			c.elems++
		}
		for _, ih := range ctl.Ihave {
			t := "-"
			if ih.TopicID != nil {
				t = "+" + *ih.TopicID
			}
			if len(ih.MessageIDs) == 0 {
				c.emptyIhave++
			}
			for _, id := range ih.MessageIDs {
				c.multi["ihave"] = append(c.multi["ihave"], t+"\x00"+id)
				c.elems++
			}
		}
		for _, iw := range ctl.Iwant {
			for _, id := range iw.MessageIDs {
				c.multi["iwant"] = append(c.multi["iwant"], id)
				c.elems++
			}
		}
		for _, iw := range ctl.Idontwant {
			for _, id := range iw.MessageIDs {
				c.multi["idontwant"] = append(c.multi["idontwant"], id)
				c.elems++
			}
		}
		if ctl.Extensions != nil {
			c.once["extensions"] = append(c.once["extensions"], vfMustMarshal(ctl.Extensions))
			c.elems++
		}
	}
	if r.Partial != nil {
		c.once["partial"] = append(c.once["partial"], vfMustMarshal(r.Partial))
		c.elems++
	}
	if r.TestExtension != nil {
		c.once["testext"] = append(c.once["testext"], vfMustMarshal(r.TestExtension))
		c.elems++
	}
}

var c11MultiKinds = []string{"sub", "graft", "prune", "ihave", "iwant", "idontwant"}
var c11OnceKinds = []string{"extensions", "partial", "testext"}

// c11Compare reports, per kind, what got lost or duplicated going from want to got.
func c11Compare(res *vfResult, want, got *c11Content, step int) {
	if len(want.msgs) != len(got.msgs) {
		if len(got.msgs) < len(want.msgs) {
			res.violate("C11/lost:msg", step, "fragments carry %d messages, original %d", len(got.msgs), len(want.msgs))
		} else {
			res.violate("C11/dup:msg", step, "fragments carry %d messages, original %d", len(got.msgs), len(want.msgs))
		}
	} else {
		for i := range want.msgs {
			if want.msgs[i] != got.msgs[i] {
				res.violate("C11/msg-seq", step, "message %d differs after split (reordered or altered)", i)
				break
			}
		}
	}
	for _, k := range append(append([]string{}, c11MultiKinds...), c11OnceKinds...) {
		w := append(append([]string{}, want.multi[k]...), want.once[k]...)
		g := append(append([]string{}, got.multi[k]...), got.once[k]...)
		sort.Strings(w)
		sort.Strings(g)
		lost, dup := vfMultisetDiff(w, g)
		if lost > 0 {
			res.violate("C11/lost:"+k, step, "%d of %d %s element(s) missing from the fragments", lost, len(w), k)
		}
		if dup > 0 {
			res.violate("C11/dup:"+k, step, "%d %s element(s) in the fragments that the original does not have (duplicated or invented)", dup, k)
		}
	}
}

// vfMultisetDiff takes two sorted lists; returns |a \ b| and |b \ a| as multisets.
func vfMultisetDiff(a, b []string) (onlyA, onlyB int) {
	i, j := 0, 0
	for i < len(a) && j < len(b) {
		switch {
		case a[i] == b[j]:
			i++
			j++
		case a[i] < b[j]:
			onlyA++
			i++
		default:
			onlyB++
			j++
		}
	}
	return onlyA + len(a) - i, onlyB + len(b) - j
}

func c11Run(_ *testing.T, c c11Case) (res vfResult) {
	rpc := c11Build(c)
	before := vfMustMarshal(&rpc.RPC)
	want := newC11Content()
	want.add(&rpc.RPC)

	got := newC11Content()
	nfrag := 0
	var kept []RPC // the fragments as a caller that queues them sees them: looked at again after the iteration
	for frag := range rpc.split(c.Limit) {
		nfrag++
		kept = append(kept, frag)
		one := newC11Content()
		one.add(&frag.RPC)
		got.add(&frag.RPC)
		sz := frag.Size()
		if sz > c.Limit && one.elems+one.emptyIhave > 1 {
			res.violate("C11/oversize-multi", nfrag, "fragment %d has size %d > limit %d but holds %d elements", nfrag, sz, c.Limit, one.elems)
		}
		if sz == 0 {
			res.violate("C11/empty-fragment", nfrag, "fragment %d is an empty RPC (size 0)", nfrag)
		} else if one.elems == 0 && one.emptyIhave == 0 && c11CtlEntries(&frag.RPC) == 0 {
			// an RPC whose only content is an empty control message (2 bytes on the wire). When the input itself is nothing
			// but that, the fragment is the input; when the input carries elements, a fragment that carries none is an
			// empty RPC in the sense of the statement
			if want.elems+want.emptyIhave > 0 {
				res.violate("C11/contentless-fragment", nfrag, "fragment %d of %d bytes carries nothing (an empty control message only) although the RPC has %d elements", nfrag, sz, want.elems+want.emptyIhave)
			} else {
				res.label("contentless-input")
			}
		}
		if nfrag > 100000 {
			res.violate("C11/runaway", nfrag, "more than 100000 fragments")
			break
		}
	}
	// sendRPC queues the fragments; they must still say the same once the iteration is over
	later := newC11Content()
	for i := range kept {
		later.add(&kept[i].RPC)
	}
	pre := len(res.Viols)
	c11Compare(&res, want, later, nfrag)
	if len(res.Viols) > pre {
		for i := pre; i < len(res.Viols); i++ {
			res.Viols[i].Key += "@after-iteration"
		}
	}
	c11Compare(&res, want, got, nfrag)
	if after := vfMustMarshal(&rpc.RPC); !bytes.Equal([]byte(before), []byte(after)) {
		res.violate("C11/mutated-input", nfrag, "split changed the RPC it was given")
	}

	// classification
	kinds := 0
	if len(want.msgs) > 0 {
		kinds++
		res.label("kind:msg")
	}
	for _, k := range c11MultiKinds {
		if len(want.multi[k]) > 0 {
			kinds++
			res.label("kind:" + k)
		}
	}
	for _, k := range c11OnceKinds {
		if len(want.once[k]) > 0 {
			kinds++
			res.label("kind:" + k)
		}
	}
	total := rpc.Size()
	np := *rpc
	np.Publish = nil
	if np.Size() >= c.Limit {
		res.label("slowpath")
	}
	if total > c.Limit {
		res.label("oversized")
	}
	res.label(fmt.Sprintf("fragments:%s", vfBucket(nfrag)))
	res.NT = total > c.Limit && kinds >= 2
	return res
}

func vfBucket(n int) string {
	switch {
	case n == 0:
		return "0"
	case n == 1:
		return "1"
	case n <= 3:
		return "2-3"
	case n <= 10:
		return "4-10"
	case n <= 100:
		return "11-100"
	}
	return ">100"
}

func TestVfC11Split(t *testing.T) {
	vfCheck(t, "C11", c11Gen, c11Run)
}

// c11CtlEntries counts the entries of the control message whatever they hold (an IWANT without IDs is still an entry of
// the input, kept or dropped at the splitter's discretion).
func c11CtlEntries(r *pb.RPC) int {
	c := r.GetControl()
	if c == nil {
		return 0
	}
	n := len(c.Ihave) + len(c.Iwant) + len(c.Graft) + len(c.Prune) + len(c.Idontwant)
	if c.Extensions != nil {
		n++
	}
	return n
}
