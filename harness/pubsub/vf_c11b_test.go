package pubsub

// C11 (b) — gossipsub's sendRPC on a direct-driven node: nothing larger than the limit is queued, and what is
// queued plus what is reported dropped is exactly what was to be sent (the RPC plus the control retries and
// gossip piggybacked onto it).

import (
	"sort"
	"testing"

	pb "github.com/libp2p/go-libp2p-pubsub/pb"
	"pgregory.net/rapid"
)

type c11bCase struct {
	RPC         c11Case `json:"rpc"`   // Limit is the node's max message size
	PendPrunes  []int   `json:"pend_prunes,omitempty"` // topic lengths of PRUNEs waiting for retry
	PendIhave   []c11IDs `json:"pend_ihave,omitempty"` // gossip waiting to be piggybacked
	Urgent      bool    `json:"urgent"`
}

func c11bGen(rt *rapid.T) c11bCase {
	c := c11bCase{RPC: c11Gen(rt), Urgent: rapid.Bool().Draw(rt, "urgent")}
	if c.RPC.Limit < 64 {
		c.RPC.Limit = 64 + c.RPC.Limit
	}
	// the extension fields are handled by the extension code paths, not by callers of sendRPC with pending control
	if rapid.Bool().Draw(rt, "pendctl") {
		n := rapid.IntRange(1, 40).Draw(rt, "npp")
		for i := 0; i < n; i++ {
			c.PendPrunes = append(c.PendPrunes, c11GenSmall(rt, c.RPC.Limit, "ppt"))
		}
	}
	if rapid.Bool().Draw(rt, "pendgossip") {
		c.PendIhave = c11GenIDs(rt, c.RPC.Limit, "pih", true)
	}
	return c
}

func c11bRun(t *testing.T, c c11bCase) (res vfResult) {
	msg := vfBubble(t, func() {
		n, err := newVfNode(t, vfNodeCfg{Router: "gossipsub", ManualHeartbeat: true, Opts: []Option{WithMaxMessageSize(c.RPC.Limit), WithPeerOutboundQueueSize(200000)}})
		if err != nil {
			res.Inconclusive = err.Error()
			return
		}
		defer n.close()
		n.addPeer(1, GossipSubID_v12, 200000, nil)
		p := vfPeer(1).ID
		out := c11Build(c.RPC)
		want := newC11Content()
		want.add(&out.RPC)
		k := 100000
		next := func(l int) string { k++; return vfPad(k, l) }
		var pend *pb.ControlMessage
		if len(c.PendPrunes) > 0 {
			pend = &pb.ControlMessage{}
			for _, l := range c.PendPrunes {
				tn := next(l)
				pend.Prune = append(pend.Prune, &pb.ControlPrune{TopicID: &tn})
			}
			want.add(&pb.RPC{Control: pend})
		}
		var gossip []*pb.ControlIHave
		for _, e := range c.PendIhave {
			ih := &pb.ControlIHave{}
			if e.Topic >= 0 {
				tn := next(e.Topic)
				ih.TopicID = &tn
			}
			for _, l := range e.IDs {
				ih.MessageIDs = append(ih.MessageIDs, next(l))
			}
			gossip = append(gossip, ih)
		}
		if len(gossip) > 0 {
			// piggybacking replaces the RPC's own IHAVEs by the pending gossip (gossipsub.go piggybackGossip): the
			// callers never combine the two, and neither does this generator
			if out.Control != nil {
				out.Control.Ihave = nil
			}
			want = newC11Content()
			want.add(&out.RPC)
			if pend != nil {
				want.add(&pb.RPC{Control: pend})
			}
			want.add(&pb.RPC{Control: &pb.ControlMessage{Ihave: gossip}})
		}
		mark := len(n.raw.snapshot())
		n.eval(func() {
			if pend != nil {
				n.gs.control[p] = pend
			}
			if len(gossip) > 0 {
				n.gs.gossip[p] = gossip
			}
			n.gs.sendRPC(p, out, c.Urgent)
		})
		sent := n.drain()
		got := newC11Content()
		for _, w := range sent {
			if sz := w.RPC.Size(); sz > c.RPC.Limit {
				res.violate("C11/oversize-queued", 0, "an RPC of %d bytes was queued, limit %d", sz, c.RPC.Limit)
			}
			if w.RPC.Size() == 0 && want.elems > 0 {
				// (an RPC that is empty to begin with is not something the callers of sendRPC produce)
				res.violate("C11/empty-fragment", 0, "an empty RPC was queued")
			}
			got.add(&w.RPC.RPC)
		}
		nQueued := len(sent)
		droppedAny := false
		for _, e := range n.raw.snapshot()[mark:] {
			if e.Kind == "drop" {
				droppedAny = true
				got.add(&e.RPC.RPC)
			}
		}
		// queued messages keep their relative order; together with the dropped ones they are the original multiset
		qi := 0
		queuedMsgs := newC11Content()
		for _, w := range sent {
			queuedMsgs.add(&pb.RPC{Publish: w.RPC.Publish})
		}
		for _, m := range want.msgs {
			if qi < len(queuedMsgs.msgs) && queuedMsgs.msgs[qi] == m {
				qi++
			}
		}
		if qi != len(queuedMsgs.msgs) {
			res.violate("C11/msg-seq", nQueued, "the queued messages are not in the order of the original RPC")
		}
		sort.Strings(want.msgs)
		sort.Strings(got.msgs)
		c11Compare(&res, want, got, nQueued)
		if droppedAny {
			res.label("element-dropped")
		}
		if pend != nil {
			res.label("pending-control")
		}
		if len(gossip) > 0 {
			res.label("pending-gossip")
		}
		total := want.elems
		res.NT = (nQueued > 1 || droppedAny) && total >= 2
	})
	if msg != "" {
		res.violate("C11/panic", -1, "%s", msg)
	}
	return
}

func TestVfC11Send(t *testing.T) {
	vfCheck(t, "C11", c11bGen, c11bRun)
}
