package pubsub

// Stub host for the direct-drive layer (DESIGN §3 L1, Appendix B): a real peerstore and event bus, a
// recording connection manager and a scripted network. Nothing here talks to libp2p's swarm.

import (
	"context"
	"crypto/sha256"
	"encoding/binary"
	"errors"
	"fmt"
	"io"
	"sync"

	"github.com/libp2p/go-libp2p/core/connmgr"
	"github.com/libp2p/go-libp2p/core/crypto"
	"github.com/libp2p/go-libp2p/core/event"
	"github.com/libp2p/go-libp2p/core/host"
	"github.com/libp2p/go-libp2p/core/network"
	"github.com/libp2p/go-libp2p/core/peer"
	"github.com/libp2p/go-libp2p/core/peerstore"
	"github.com/libp2p/go-libp2p/core/protocol"
	"github.com/libp2p/go-libp2p/p2p/host/eventbus"
	"github.com/libp2p/go-libp2p/p2p/host/peerstore/pstoremem"
	ma "github.com/multiformats/go-multiaddr"
)

// ---------------------------------------------------------------------------------------------------
// identities: a per-process pool of real key pairs generated from a deterministic stream

type vfIdent struct {
	ID   peer.ID
	Priv crypto.PrivKey
	Pub  crypto.PubKey
	Kind string // "ed25519" (key extractable from the ID) or "ecdsa" (key must be attached)
}

type vfDetReader struct {
	ctr uint64
	buf []byte
	tag string
}

func (r *vfDetReader) Read(p []byte) (int, error) {
	for i := range p {
		if len(r.buf) == 0 {
			var b [8]byte
			binary.BigEndian.PutUint64(b[:], r.ctr)
			r.ctr++
			h := sha256.Sum256(append([]byte(r.tag), b[:]...))
			r.buf = h[:]
		}
		p[i] = r.buf[0]
		r.buf = r.buf[1:]
	}
	return len(p), nil
}

var (
	vfIdentOnce sync.Once
	vfEdIdents  []*vfIdent // index 0 is used for the node under test
	vfEcIdents  []*vfIdent
)

func vfIdents() ([]*vfIdent, []*vfIdent) {
	vfIdentOnce.Do(func() {
		for i := 0; i < 48; i++ {
			priv, pub, err := crypto.GenerateEd25519Key(&vfDetReader{tag: fmt.Sprintf("vf-ed-%d", i)})
			if err != nil {
				panic(err)
			}
			id, err := peer.IDFromPublicKey(pub)
			if err != nil {
				panic(err)
			}
			vfEdIdents = append(vfEdIdents, &vfIdent{ID: id, Priv: priv, Pub: pub, Kind: "ed25519"})
		}
		for i := 0; i < 6; i++ {
			// ECDSA key generation consumes randomness in a way that is not reproducible by design
			// (crypto/internal randutil); the identities differ between processes, which is harmless:
			// cases refer to identities by index only.
			priv, pub, err := crypto.GenerateECDSAKeyPair(io.Reader(&vfDetReader{tag: fmt.Sprintf("vf-ec-%d", i)}))
			if err != nil {
				panic(err)
			}
			id, err := peer.IDFromPublicKey(pub)
			if err != nil {
				panic(err)
			}
			vfEcIdents = append(vfEcIdents, &vfIdent{ID: id, Priv: priv, Pub: pub, Kind: "ecdsa"})
		}
	})
	return vfEdIdents, vfEcIdents
}

// vfPeer returns the identity for a symbolic peer index (1-based for remote peers; 0 is the node).
func vfPeer(i int) *vfIdent {
	ed, _ := vfIdents()
	return ed[i%len(ed)]
}

// ---------------------------------------------------------------------------------------------------
// connection manager

type vfConnMgr struct {
	connmgr.NullConnMgr
	mu        sync.Mutex
	protected map[peer.ID]map[string]struct{}
	log       []string
}

func newVfConnMgr() *vfConnMgr {
	return &vfConnMgr{protected: map[peer.ID]map[string]struct{}{}}
}

func (c *vfConnMgr) Protect(p peer.ID, tag string) {
	c.mu.Lock()
	defer c.mu.Unlock()
	m, ok := c.protected[p]
	if !ok {
		m = map[string]struct{}{}
		c.protected[p] = m
	}
	m[tag] = struct{}{}
}

func (c *vfConnMgr) Unprotect(p peer.ID, tag string) bool {
	c.mu.Lock()
	defer c.mu.Unlock()
	m := c.protected[p]
	delete(m, tag)
	if len(m) == 0 {
		delete(c.protected, p)
		return false
	}
	return true
}

func (c *vfConnMgr) IsProtected(p peer.ID, tag string) bool {
	c.mu.Lock()
	defer c.mu.Unlock()
	m := c.protected[p]
	if tag == "" {
		return len(m) > 0
	}
	_, ok := m[tag]
	return ok
}

func (c *vfConnMgr) tagsOf(p peer.ID) []string {
	c.mu.Lock()
	defer c.mu.Unlock()
	var out []string
	for t := range c.protected[p] {
		out = append(out, t)
	}
	return out
}

// ---------------------------------------------------------------------------------------------------
// network, connections, streams

type vfStream struct {
	network.Stream // nil: anything not overridden panics, which is what we want to know about
	conn           *vfConn
	proto          protocol.ID
	dir            network.Direction
	id             string
}

func (s *vfStream) Protocol() protocol.ID { return s.proto }
func (s *vfStream) Conn() network.Conn    { return s.conn }
func (s *vfStream) ID() string            { return s.id }
func (s *vfStream) Stat() network.Stats   { return network.Stats{Direction: s.dir} }
func (s *vfStream) Reset() error          { return nil }
func (s *vfStream) Close() error          { return nil }

type vfConn struct {
	network.Conn
	local, remote peer.ID
	dir           network.Direction
	limited       bool
	addr          ma.Multiaddr
	streams       []*vfStream
	id            string
}

func (c *vfConn) LocalPeer() peer.ID            { return c.local }
func (c *vfConn) RemotePeer() peer.ID           { return c.remote }
func (c *vfConn) RemoteMultiaddr() ma.Multiaddr { return c.addr }
func (c *vfConn) LocalMultiaddr() ma.Multiaddr  { return ma.StringCast("/ip4/127.0.0.1/tcp/1") }
func (c *vfConn) Stat() network.ConnStats {
	return network.ConnStats{Stats: network.Stats{Direction: c.dir, Limited: c.limited}}
}
func (c *vfConn) ID() string { return c.id }
func (c *vfConn) GetStreams() []network.Stream {
	out := make([]network.Stream, 0, len(c.streams))
	for _, s := range c.streams {
		out = append(out, s)
	}
	return out
}
func (c *vfConn) IsClosed() bool { return false }
func (c *vfConn) Close() error   { return nil }

type vfNetwork struct {
	network.Network
	h     *vfHost
	mu    sync.Mutex
	conns map[peer.ID][]*vfConn
	seq   int
}

func (n *vfNetwork) LocalPeer() peer.ID               { return n.h.id }
func (n *vfNetwork) Peerstore() peerstore.Peerstore   { return n.h.pstore }
func (n *vfNetwork) Notify(network.Notifiee)          {}
func (n *vfNetwork) StopNotify(network.Notifiee)      {}
func (n *vfNetwork) Close() error                     { return nil }
func (n *vfNetwork) ClosePeer(p peer.ID) error        { n.setConns(p, nil); return nil }
func (n *vfNetwork) Connectedness(p peer.ID) network.Connectedness {
	n.mu.Lock()
	defer n.mu.Unlock()
	for _, c := range n.conns[p] {
		if !c.limited {
			return network.Connected
		}
	}
	if len(n.conns[p]) > 0 {
		return network.Limited
	}
	return network.NotConnected
}
func (n *vfNetwork) ConnsToPeer(p peer.ID) []network.Conn {
	n.mu.Lock()
	defer n.mu.Unlock()
	out := make([]network.Conn, 0, len(n.conns[p]))
	for _, c := range n.conns[p] {
		out = append(out, c)
	}
	return out
}
func (n *vfNetwork) Peers() []peer.ID {
	n.mu.Lock()
	defer n.mu.Unlock()
	var out []peer.ID
	for p, cs := range n.conns {
		if len(cs) > 0 {
			out = append(out, p)
		}
	}
	return out
}
func (n *vfNetwork) Conns() []network.Conn {
	n.mu.Lock()
	defer n.mu.Unlock()
	var out []network.Conn
	for _, cs := range n.conns {
		for _, c := range cs {
			out = append(out, c)
		}
	}
	return out
}

func (n *vfNetwork) setConns(p peer.ID, cs []*vfConn) {
	n.mu.Lock()
	defer n.mu.Unlock()
	if len(cs) == 0 {
		delete(n.conns, p)
	} else {
		n.conns[p] = cs
	}
}

// vfConnSpec scripts one fake connection to a peer.
type vfConnSpec struct {
	Out     bool   `json:"out"`               // we dialled
	Limited bool   `json:"limited,omitempty"` // relayed / limited connection
	IP      string `json:"ip"`                // remote IP, e.g. "1.2.3.4" or "2001:db8::1"
	Stream  bool   `json:"stream"`            // connection carries the pubsub stream of the negotiated protocol
}

func (n *vfNetwork) connect(p peer.ID, proto protocol.ID, specs []vfConnSpec) {
	var cs []*vfConn
	for _, sp := range specs {
		n.mu.Lock()
		n.seq++
		seq := n.seq
		n.mu.Unlock()
		dir := network.DirInbound
		if sp.Out {
			dir = network.DirOutbound
		}
		var addr ma.Multiaddr
		ip := sp.IP
		if ip == "" {
			ip = "10.0.0.1"
		}
		if len(ip) > 0 && containsColon(ip) {
			addr = ma.StringCast("/ip6/" + ip + "/tcp/4001")
		} else {
			addr = ma.StringCast("/ip4/" + ip + "/tcp/4001")
		}
		c := &vfConn{local: n.h.id, remote: p, dir: dir, limited: sp.Limited, addr: addr, id: fmt.Sprintf("c%d", seq)}
		if sp.Stream {
			c.streams = append(c.streams, &vfStream{conn: c, proto: proto, dir: network.DirOutbound, id: fmt.Sprintf("s%d", seq)})
		}
		cs = append(cs, c)
	}
	n.setConns(p, cs)
}

func containsColon(s string) bool {
	for i := 0; i < len(s); i++ {
		if s[i] == ':' {
			return true
		}
	}
	return false
}

// ---------------------------------------------------------------------------------------------------
// host

type vfHost struct {
	host.Host
	id     peer.ID
	pstore peerstore.Peerstore
	bus    event.Bus
	cm     *vfConnMgr
	net    *vfNetwork

	mu       sync.Mutex
	handlers map[protocol.ID]network.StreamHandler
	connects []peer.AddrInfo // Connect calls observed
}

var errVfNoDial = errors.New("vf stub host: no dialling")

func newVfHost(ident *vfIdent) *vfHost {
	ps, err := pstoremem.NewPeerstore()
	if err != nil {
		panic(err)
	}
	if err := ps.AddPrivKey(ident.ID, ident.Priv); err != nil {
		panic(err)
	}
	if err := ps.AddPubKey(ident.ID, ident.Pub); err != nil {
		panic(err)
	}
	h := &vfHost{id: ident.ID, pstore: ps, bus: eventbus.NewBus(), cm: newVfConnMgr(), handlers: map[protocol.ID]network.StreamHandler{}}
	h.net = &vfNetwork{h: h, conns: map[peer.ID][]*vfConn{}}
	return h
}

func (h *vfHost) ID() peer.ID                         { return h.id }
func (h *vfHost) Peerstore() peerstore.Peerstore      { return h.pstore }
func (h *vfHost) Addrs() []ma.Multiaddr               { return nil }
func (h *vfHost) Network() network.Network            { return h.net }
func (h *vfHost) ConnManager() connmgr.ConnManager    { return h.cm }
func (h *vfHost) EventBus() event.Bus                 { return h.bus }
func (h *vfHost) RemoveStreamHandler(pid protocol.ID) {}
func (h *vfHost) Close() error                        { return h.pstore.Close() }
func (h *vfHost) SetStreamHandler(pid protocol.ID, handler network.StreamHandler) {
	h.mu.Lock()
	h.handlers[pid] = handler
	h.mu.Unlock()
}
func (h *vfHost) SetStreamHandlerMatch(pid protocol.ID, _ func(protocol.ID) bool, handler network.StreamHandler) {
	h.SetStreamHandler(pid, handler)
}
func (h *vfHost) Connect(ctx context.Context, pi peer.AddrInfo) error {
	h.mu.Lock()
	h.connects = append(h.connects, pi)
	h.mu.Unlock()
	return errVfNoDial
}
func (h *vfHost) NewStream(ctx context.Context, p peer.ID, pids ...protocol.ID) (network.Stream, error) {
	return nil, errVfNoDial
}
