package pubsub

// C20 (b) — the sequence-number validator inside a node: concurrent validation workers, copies, reorderings and
// replays after the seen window has expired (DESIGN §5 C20b).

import (
	"context"
	"encoding/binary"
	"fmt"
	"log/slog"
	"sort"
	"sync"
	"testing"
	"time"

	pb "github.com/libp2p/go-libp2p-pubsub/pb"
	"github.com/libp2p/go-libp2p/core/peer"
	"pgregory.net/rapid"
)

type c20bMsg struct {
	Author int `json:"a"`
	Seq    int `json:"s"`
	Len    int `json:"len"` // encoded length (8 = well formed)
	P      int `json:"p"`   // forwarding peer
}

type c20bBurst struct {
	Msgs []c20bMsg `json:"msgs"` // all arrive in one instant (one RPC per message, or one RPC for all)
	One  bool      `json:"one_rpc,omitempty"`
	GapS int       `json:"gap_s"`
	Over bool      `json:"over,omitempty"` // arrives while the validation pipeline is full (overload cases)
}

type c20bCase struct {
	Workers int         `json:"workers"`
	Inline  bool        `json:"inline"`
	Async   bool        `json:"extra_async_validator"`
	Bursts  []c20bBurst `json:"bursts"`
	Extra2  bool        `json:"second_default_validator,omitempty"` // an accepting inline default validator registered after the sequence-number validator
	// Overload: validation queue of one, one worker and a first default validator the harness can hold: bursts marked
	// Over arrive while the pipeline is full (they may be dropped, never let through unvalidated)
	Overload bool `json:"overload,omitempty"`
}

func c20bGen(rt *rapid.T) c20bCase {
	c := c20bCase{Workers: rapid.IntRange(1, 8).Draw(rt, "workers"), Inline: rapid.Bool().Draw(rt, "inline"), Async: rapid.Bool().Draw(rt, "async")}
	c.Extra2 = rapid.IntRange(0, 2).Draw(rt, "extra2") == 0
	c.Overload = rapid.IntRange(0, 4).Draw(rt, "overload") == 0
	if c.Overload {
		c.Workers = 1
	}
	nb := rapid.IntRange(1, 8).Draw(rt, "nbursts")
	for i := 0; i < nb; i++ {
		b := c20bBurst{One: rapid.Bool().Draw(rt, "one"), GapS: rapid.SampledFrom([]int{0, 0, 1, 3, 61, 63, 70, 130}).Draw(rt, "gap")}
		for k := 0; k < rapid.IntRange(1, 8).Draw(rt, "nmsgs"); k++ {
			m := c20bMsg{Author: rapid.IntRange(1, 2).Draw(rt, "a"), Seq: rapid.OneOf(rapid.IntRange(0, 5), rapid.IntRange(0, 12)).Draw(rt, "s"), Len: 8, P: rapid.IntRange(1, 3).Draw(rt, "p")}
			if rapid.IntRange(0, 14).Draw(rt, "badlen") == 0 {
				m.Len = rapid.IntRange(0, 12).Draw(rt, "len")
			}
			b.Msgs = append(b.Msgs, m)
		}
		if c.Overload {
			b.Over = rapid.Bool().Draw(rt, "over")
		}
		c.Bursts = append(c.Bursts, b)
	}
	return c
}

func c20bRun(t *testing.T, c c20bCase) (res vfResult) {
	msg := vfBubble(t, func() { c20bRunInBubble(t, c, &res) })
	if msg != "" {
		res.violate("C20/panic", -1, "%s", msg)
	}
	return
}

func c20bRunInBubble(t *testing.T, c c20bCase, res *vfResult) {
	topic := vfTopic(0)
	store := &c20Store{vals: map[peer.ID][]byte{}, puts: map[peer.ID][]uint64{}}
	var vo []ValidatorOpt
	if c.Inline {
		vo = append(vo, WithValidatorInline(true))
	}
	gp := DefaultGossipSubParams()
	gp.D, gp.Dlo, gp.Dhi, gp.Dscore, gp.Dout = 6, 1, 12, 0, 0
	tsp := &TopicScoreParams{SkipAtomicValidation: true, TopicWeight: 1, InvalidMessageDeliveriesWeight: -1, InvalidMessageDeliveriesDecay: 0.9999}
	var holdMu sync.Mutex
	var hold chan struct{}
	var pre []Option
	if c.Overload {
		pre = append(pre, WithValidateQueueSize(1), WithDefaultValidator(func(ctx context.Context, _ peer.ID, _ *Message) ValidationResult {
			holdMu.Lock()
			h := hold
			holdMu.Unlock()
			if h != nil {
				select {
				case <-h:
				case <-ctx.Done():
				}
			}
			return ValidationAccept
		}, WithValidatorInline(true)))
		res.label("overload-configuration")
	}
	opts := append(pre, WithSeenMessagesTTL(2*time.Second), WithDefaultValidator(NewBasicSeqnoValidator(store, slog.Default()), vo...),
		WithPeerScore(&PeerScoreParams{AppSpecificScore: func(peer.ID) float64 { return 0 }, DecayInterval: time.Hour, DecayToZero: 0.0001, Topics: map[string]*TopicScoreParams{topic: tsp}},
			&PeerScoreThresholds{GossipThreshold: -1e9, PublishThreshold: -1e9, GraylistThreshold: -1e9, AcceptPXThreshold: 1e9}))
	if c.Extra2 {
		opts = append(opts, WithDefaultValidator(func(context.Context, peer.ID, *Message) ValidationResult { return ValidationAccept }, WithValidatorInline(true)))
		res.label("second-default-validator-inline")
	}
	n, err := newVfNode(t, vfNodeCfg{Router: "gossipsub", Params: &gp, ManualHeartbeat: true, Workers: c.Workers, Opts: opts})
	if err != nil {
		res.Inconclusive = err.Error()
		return
	}
	defer n.close()
	if c.Async {
		// an accepting asynchronous topic validator next to the sequence-number validator
		_ = n.ps.RegisterTopicValidator(topic, func(_ context.Context, _ peer.ID, _ *Message) ValidationResult { return ValidationAccept })
	}
	th, _ := n.ps.Join(topic)
	sub, _ := th.Subscribe(WithBufferSize(1024))
	for p := 1; p <= 4; p++ {
		n.addPeer(p, GossipSubID_v11, 0, nil)
		n.recv(p, vfSubRPC(topic, true))
		n.recv(p, vfGraftRPC(topic))
	}
	n.drain()
	time.Sleep(500 * time.Millisecond)
	author := func(a int) *vfIdent { return vfPeer(33 + a) }
	fillSeq := uint64(1000)
	highest := map[int]uint64{} // highest sequence number the validator has accepted per author (model)
	replayAfterExpiry, concurrent := false, false
	lastSeenAt := map[[2]int]time.Time{}
	invalidSum := func() float64 {
		var v float64
		n.eval(func() {
			n.gs.score.Lock()
			for _, st := range n.gs.score.peerStats {
				for _, ts := range st.topics {
					v += ts.invalidMessageDeliveries
				}
			}
			n.gs.score.Unlock()
		})
		return v
	}

	for bi, b := range c.Bursts {
		now := time.Now()
		putsBefore := map[int]int{}
		for a := 1; a <= 2; a++ {
			putsBefore[a] = len(store.puts[author(a).ID])
		}
		var rpcMsgs []*pb.Message
		var senders []int
		wellFormed := map[int][]uint64{}
		for _, m := range b.Msgs {
			cm := c20Msg{Author: m.Author, Seq: m.Seq, Len: m.Len}
			tn := topic
			pm := &pb.Message{From: []byte(author(m.Author).ID), Data: []byte(fmt.Sprintf("a%d-s%d-l%d", m.Author, m.Seq, m.Len)), Seqno: cm.seqBytes(), Topic: &tn}
			if err := signMessage(author(m.Author).ID, author(m.Author).Priv, pm); err != nil {
				panic(err)
			}
			rpcMsgs = append(rpcMsgs, pm)
			senders = append(senders, m.P)
			if m.Len == 8 || m.Len > 8 {
				wellFormed[m.Author] = append(wellFormed[m.Author], uint64(m.Seq))
			}
			key := [2]int{m.Author, m.Seq}
			if at, ok := lastSeenAt[key]; ok && now.Sub(at) > 62*time.Second && uint64(m.Seq) <= highest[m.Author] {
				replayAfterExpiry = true
			}
			lastSeenAt[key] = now
		}
		penBefore := invalidSum()
		var held chan struct{}
		if c.Overload && b.Over {
			// the worker waits inside the first validator with one filler, a second filler occupies the queue
			held = make(chan struct{})
			holdMu.Lock()
			hold = held
			holdMu.Unlock()
			for k := 0; k < 2; k++ {
				fillSeq++
				tn := topic
				f := &pb.Message{From: []byte(author(3).ID), Data: []byte(fmt.Sprintf("filler-%d", fillSeq)), Seqno: (c20Msg{Seq: int(fillSeq), Len: 8}).seqBytes(), Topic: &tn}
				if err := signMessage(author(3).ID, author(3).Priv, f); err != nil {
					panic(err)
				}
				n.recv(4, vfMsgRPC(f))
				n.settle()
			}
			res.label("burst-while-pipeline-full")
		}
		if b.One {
			n.recv(senders[0], vfMsgRPC(rpcMsgs...))
		} else {
			for i, pm := range rpcMsgs {
				n.recv(senders[i], vfMsgRPC(pm))
			}
		}
		if held != nil {
			n.settle()
			holdMu.Lock()
			hold = nil
			holdMu.Unlock()
			close(held)
		}
		if len(b.Msgs) >= 2 && c.Workers >= 2 {
			concurrent = true
		}
		time.Sleep(400 * time.Millisecond)
		n.settle()
		sent := n.drain()
		// what was delivered and forwarded in this burst, per author
		delivered := map[int][]uint64{}
		for len(sub.ch) > 0 {
			dm := <-sub.ch
			for a := 1; a <= 2; a++ {
				if peer.ID(dm.From) == author(a).ID && len(dm.Seqno) >= 8 {
					delivered[a] = append(delivered[a], binary.BigEndian.Uint64(dm.Seqno))
				} else if peer.ID(dm.From) == author(a).ID {
					res.violate("C20/malformed-accepted", bi, "a message with a %d-byte sequence number was delivered", len(dm.Seqno))
				}
			}
		}
		forwarded := map[int]map[uint64]bool{1: {}, 2: {}}
		for _, w := range sent {
			for _, pm := range w.RPC.Publish {
				for a := 1; a <= 2; a++ {
					if peer.ID(pm.From) == author(a).ID && len(pm.Seqno) >= 8 {
						forwarded[a][binary.BigEndian.Uint64(pm.Seqno)] = true
					}
				}
			}
		}
		for a := 1; a <= 2; a++ {
			puts := store.puts[author(a).ID]
			newPuts := puts[putsBefore[a]:]
			for i := 1; i < len(puts); i++ {
				if puts[i] <= puts[i-1] {
					res.violate("C20/nonce-not-increasing", bi, "author %d: stored nonce went %d -> %d", a, puts[i-1], puts[i])
				}
			}
			// accepted (committed) <=> delivered <=> forwarded
			acc := map[uint64]bool{}
			for _, v := range newPuts {
				acc[v] = true
			}
			dl := map[uint64]int{}
			for _, v := range delivered[a] {
				dl[v]++
			}
			for v, k := range dl {
				if k > 1 {
					res.violate("C20/replay-delivered", bi, "author %d: sequence number %d delivered %d times in one burst", a, v, k)
				}
				if !acc[v] {
					res.violate("C20/replay-delivered", bi, "author %d: sequence number %d was delivered although the validator did not accept it (highest accepted before: %d)", a, v, highest[a])
				}
				if v <= highest[a] {
					res.violate("C20/replay-delivered", bi, "author %d: sequence number %d delivered, not greater than %d accepted earlier", a, v, highest[a])
				}
			}
			for v := range forwarded[a] {
				if !acc[v] {
					res.violate("C20/replay-forwarded", bi, "author %d: sequence number %d was forwarded although the validator did not accept it (highest accepted before: %d)", a, v, highest[a])
				}
			}
			for v := range acc {
				if dl[v] != 1 {
					res.violate("C20/accepted-not-delivered", bi, "author %d: sequence number %d was accepted but delivered %d times", a, v, dl[v])
				}
			}
			// completeness: the largest well-formed number of the burst, if beyond everything accepted so far, is accepted
			ws := wellFormed[a]
			sort.Slice(ws, func(i, j int) bool { return ws[i] < ws[j] })
			if len(ws) > 0 && ws[len(ws)-1] > highest[a] && !acc[ws[len(ws)-1]] && !c.Overload { // (with a queue of one, members of a burst may be dropped)
				res.violate("C20/fresh-not-accepted", bi, "author %d: sequence number %d (highest before: %d) was not accepted", a, ws[len(ws)-1], highest[a])
			}
			if len(puts) > 0 {
				highest[a] = puts[len(puts)-1]
			}
		}
		if d := invalidSum() - penBefore; d != 0 {
			res.violate("C20/replay-penalised", bi, "invalid-delivery counters rose by %g: replays and malformed sequence numbers are ignored, not penalised", d)
		}
		if len(res.Viols) > 0 {
			return
		}
		time.Sleep(time.Until(now.Add(time.Second)))
		time.Sleep(time.Duration(b.GapS) * time.Second)
	}
	res.NT = concurrent || replayAfterExpiry
	if concurrent {
		res.label("concurrent-workers")
	}
	if replayAfterExpiry {
		res.label("replay-after-seen-window")
	}
}

func TestVfC20bNode(t *testing.T) {
	vfCheck(t, "C20", c20bGen, c20bRun)
}
