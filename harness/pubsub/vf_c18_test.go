package pubsub

// C18 — the peer-event stream of a topic reproduces the topic's peer set (DESIGN §5 C18).
//   TestVfC18Seq   bounded-exhaustive sequences over two peers on the handler's log (no node)
//   TestVfC18Node  rapid histories on a direct-driven node, with blocked, concurrent and cancelled NextPeerEvent calls

import (
	"context"
	"fmt"
	"os"
	"runtime"
	"strconv"
	"sync"
	"testing"
	"testing/synctest"
	"time"

	"github.com/libp2p/go-libp2p/core/peer"
	"pgregory.net/rapid"
)

// fold state of one consumer of a handler's event stream
type c18Fold struct {
	set  map[peer.ID]bool
	last map[peer.ID]EventType
	seen map[peer.ID]bool
}

func newC18Fold() *c18Fold {
	return &c18Fold{set: map[peer.ID]bool{}, last: map[peer.ID]EventType{}, seen: map[peer.ID]bool{}}
}

func (f *c18Fold) apply(res *vfResult, step int, who string, ev PeerEvent, name func(peer.ID) string) {
	switch ev.Type {
	case PeerJoin:
		if f.seen[ev.Peer] && f.last[ev.Peer] == PeerJoin {
			res.violate("C18/alternation", step, "%s: two PeerJoin events in a row for %s", who, name(ev.Peer))
		}
		f.set[ev.Peer] = true
	case PeerLeave:
		if !f.seen[ev.Peer] {
			res.violate("C18/alternation", step, "%s: the first event for %s is a PeerLeave", who, name(ev.Peer))
		} else if f.last[ev.Peer] == PeerLeave {
			res.violate("C18/alternation", step, "%s: two PeerLeave events in a row for %s", who, name(ev.Peer))
		}
		delete(f.set, ev.Peer)
	default:
		res.violate("C18/unknown-event", step, "%s: event type %d", who, ev.Type)
	}
	f.seen[ev.Peer], f.last[ev.Peer] = true, ev.Type
}

func (f *c18Fold) clone() *c18Fold {
	g := newC18Fold()
	for k, v := range f.set {
		g.set[k] = v
	}
	for k, v := range f.last {
		g.last[k] = v
	}
	for k, v := range f.seen {
		g.seen[k] = v
	}
	return g
}

func (f *c18Fold) equal(members map[peer.ID]bool) bool {
	if len(f.set) != len(members) {
		return false
	}
	for p := range members {
		if !f.set[p] {
			return false
		}
	}
	return true
}

// ---------------------------------------------------------------------------------------------------
// exhaustive, on the handler alone

type c18Seq struct {
	Ops string `json:"ops"` // a/b: peer 1 joins/leaves, c/d: peer 2 joins/leaves, n: handler A pulls one event, h: handler B is created, m: handler B pulls
}

func c18Enum(maxLen int) func(yield func(c18Seq) bool) {
	shard, _ := strconv.Atoi(os.Getenv("VF_SHARD"))
	shards, _ := strconv.Atoi(os.Getenv("VF_SHARDS"))
	if shards <= 0 {
		shards = 1
	}
	return func(yield func(c18Seq) bool) {
		cnt := 0
		for L := 1; L <= maxLen; L++ {
			buf := make([]byte, L)
			var rec func(pos int, m1, m2, hasB bool) bool
			rec = func(pos int, m1, m2, hasB bool) bool {
				if pos == L {
					cnt++
					if cnt%shards != shard {
						return true
					}
					return yield(c18Seq{Ops: string(buf)})
				}
				for _, op := range []byte("abcdnhm") {
					a, b, hb := m1, m2, hasB
					switch op {
					case 'a':
						if m1 {
							continue // the event loop notifies a join only for a peer that was not a member
						}
						a = true
					case 'b':
						if !m1 {
							continue
						}
						a = false
					case 'c':
						if m2 {
							continue
						}
						b = true
					case 'd':
						if !m2 {
							continue
						}
						b = false
					case 'h':
						if hasB {
							continue
						}
						hb = true
					case 'm':
						if !hasB {
							continue
						}
					}
					buf[pos] = op
					if !rec(pos+1, a, b, hb) {
						return false
					}
				}
				return true
			}
			if !rec(0, false, false, false) {
				return
			}
		}
	}
}

func c18NewHandler(t *Topic, members map[peer.ID]bool) *TopicEventHandler {
	// what Topic.EventHandler does inside the event loop: seed with the current members, then register
	h := &TopicEventHandler{topic: t, evtLog: make(map[peer.ID]EventType), evtLogCh: make(chan struct{}, 1)}
	for p := range members {
		h.evtLog[p] = PeerJoin
	}
	t.evtHandlerMux.Lock()
	t.evtHandlers[h] = struct{}{}
	t.evtHandlerMux.Unlock()
	return h
}

func c18SeqRun(_ *testing.T, c c18Seq) (res vfResult) {
	topic := &Topic{topic: "t", evtHandlers: map[*TopicEventHandler]struct{}{}}
	members := map[peer.ID]bool{}
	p1, p2 := vfPeer(1).ID, vfPeer(2).ID
	name := func(p peer.ID) string {
		if p == p1 {
			return "peer 1"
		}
		return "peer 2"
	}
	dead, cancel := context.WithCancel(context.Background())
	cancel()
	hA, fA := c18NewHandler(topic, members), newC18Fold()
	var hB *TopicEventHandler
	var fB *c18Fold
	pull := func(step int, who string, h *TopicEventHandler, f *c18Fold) bool {
		h.evtLogMx.Lock()
		pending := len(h.evtLog)
		h.evtLogMx.Unlock()
		ev, err := h.NextPeerEvent(dead)
		if err != nil {
			if pending > 0 {
				res.violate("C18/event-not-delivered", step, "%s: NextPeerEvent returned %v although %d event(s) are pending", who, err, pending)
			}
			return false
		}
		if pending == 0 {
			res.violate("C18/event-invented", step, "%s: NextPeerEvent returned an event although nothing was pending", who)
		}
		f.apply(&res, step, who, ev, name)
		return true
	}
	elided, seededB := false, false
	for step, op := range c.Ops {
		switch op {
		case 'a', 'c':
			p := p1
			if op == 'c' {
				p = p2
			}
			if e, ok := hA.evtLog[p]; ok && e == PeerLeave {
				elided = true
			}
			members[p] = true
			topic.sendNotification(PeerEvent{PeerJoin, p})
		case 'b', 'd':
			p := p1
			if op == 'd' {
				p = p2
			}
			if e, ok := hA.evtLog[p]; ok && e == PeerJoin {
				elided = true
			}
			delete(members, p)
			topic.sendNotification(PeerEvent{PeerLeave, p})
		case 'n':
			pull(step, "handler A", hA, fA)
		case 'h':
			hB, fB = c18NewHandler(topic, members), newC18Fold()
			seededB = len(members) > 0
		case 'm':
			pull(step, "handler B", hB, fB)
		}
		if len(res.Viols) > 0 {
			return
		}
	}
	// quiet: drain both handlers; the folds must equal the membership
	for i := 0; i < 10 && pull(len(c.Ops), "handler A", hA, fA); i++ {
	}
	if !fA.equal(members) {
		res.violate("C18/fold-mismatch", len(c.Ops), "handler A: replaying its events gives %d peers, the topic has %d", len(fA.set), len(members))
	}
	if hB != nil {
		for i := 0; i < 10 && pull(len(c.Ops), "handler B", hB, fB); i++ {
		}
		if !fB.equal(members) {
			res.violate("C18/fold-mismatch", len(c.Ops), "handler B (created later): replaying its events gives %d peers, the topic has %d", len(fB.set), len(members))
		}
	}
	res.NT = elided || seededB
	if elided {
		res.label("join-and-leave-before-consumption")
	}
	if seededB {
		res.label("handler-created-with-members")
	}
	return
}

func TestVfC18Seq(t *testing.T) {
	maxLen := vfParamInt("maxlen", 6)
	vfNote("C18", t.Name(), "bound", fmt.Sprintf("all enabled sequences of length 1..%d over {join/leave of two peers, pull on handler A, create handler B, pull on handler B}", maxLen))
	vfExhaustive(t, "C18", c18Enum(maxLen), c18SeqRun)
}

// ---------------------------------------------------------------------------------------------------
// random, on a node

type c18Op struct {
	Op string `json:"op"` // arrive sub unsub depart inclose newhandler newhandlerrace closerace next nextblock cancelwait cancelhandler adv
	P  int    `json:"p,omitempty"`
	H  int    `json:"h,omitempty"`
	Ms int    `json:"ms,omitempty"`
}

type c18Case struct {
	Router string  `json:"router"`
	Peers  int     `json:"peers"`
	Ops    []c18Op `json:"ops"`
}

func c18Gen(rt *rapid.T) c18Case {
	c := c18Case{Router: rapid.SampledFrom([]string{"floodsub", "gossipsub", "randomsub"}).Draw(rt, "router"), Peers: rapid.IntRange(2, 5).Draw(rt, "peers")}
	n := rapid.IntRange(3, 60).Draw(rt, "nops")
	if rapid.IntRange(0, 9).Draw(rt, "long") == 0 {
		n = rapid.IntRange(60, 200).Draw(rt, "nopsLong")
	}
	kinds := []string{"arrive", "sub", "sub", "sub", "unsub", "unsub", "depart", "inclose", "newhandler", "newhandler", "newhandlerrace", "closerace", "closerace", "next", "next", "next", "nextblock", "nextblock", "nextblock", "nextblock", "burst", "burst", "race", "race", "cancelwait", "cancelhandler", "adv"}
	for i := 0; i < n; i++ {
		c.Ops = append(c.Ops, c18Op{Op: rapid.SampledFrom(kinds).Draw(rt, "op"), P: rapid.IntRange(1, c.Peers).Draw(rt, "p"), H: rapid.IntRange(0, 2).Draw(rt, "h"), Ms: rapid.IntRange(0, 50).Draw(rt, "ms")})
	}
	return c
}

type c18Waiter struct {
	h      int
	cancel context.CancelFunc
	done   chan struct{}
	ev     PeerEvent
	err    error
}

func c18Run(t *testing.T, c c18Case) (res vfResult) {
	msg := vfBubble(t, func() { c18RunInBubble(t, c, &res) })
	if msg != "" {
		res.violate("C18/panic", -1, "%s", msg)
	}
	return
}

func c18RunInBubble(t *testing.T, c c18Case, res *vfResult) {
	n, err := newVfNode(t, vfNodeCfg{Router: c.Router})
	if err != nil {
		res.Inconclusive = err.Error()
		return
	}
	defer n.close()
	topicName := vfTopic(0)
	th, _ := n.ps.Join(topicName)
	name := func(p peer.ID) string { return fmt.Sprintf("peer %d", n.byID[p]) }
	type hstate struct {
		h         *TopicEventHandler
		f         *c18Fold
		cancelled bool
	}
	var hs []*hstate
	var waiters []*c18Waiter
	nt := false
	members := func() map[peer.ID]bool {
		m := map[peer.ID]bool{}
		n.eval(func() {
			for p := range n.ps.topics[topicName] {
				m[p] = true
			}
		})
		return m
	}
	pending := func(h *TopicEventHandler) int {
		h.evtLogMx.Lock()
		defer h.evtLogMx.Unlock()
		return len(h.evtLog)
	}
	// collect finished waiters. Two calls on one handler that return within the same quiescence window have no
	// observable order between them: the stream is judged under whichever order of the two is consistent.
	reap := func(step int) {
		var keep []*c18Waiter
		fin := map[int][]*c18Waiter{}
		for _, w := range waiters {
			select {
			case <-w.done:
				if w.err == nil {
					fin[w.h] = append(fin[w.h], w)
				}
			default:
				keep = append(keep, w)
			}
		}
		waiters = keep
		for h, ws := range fin {
			who := fmt.Sprintf("handler %d (blocked call)", h)
			orders := [][]*c18Waiter{ws}
			if len(ws) == 2 {
				orders = append(orders, []*c18Waiter{ws[1], ws[0]})
			}
			var firstTry vfResult
			applied := false
			for i, ord := range orders {
				var try vfResult
				f := hs[h].f.clone()
				for _, w := range ord {
					f.apply(&try, step, who, w.ev, name)
				}
				if i == 0 {
					firstTry = try
				}
				if len(try.Viols) == 0 {
					hs[h].f = f
					applied = true
					break
				}
			}
			if !applied {
				for _, w := range ws {
					hs[h].f.apply(res, step, who, w.ev, name)
				}
				_ = firstTry
			}
		}
	}
	blockedOn := func(h int) int {
		k := 0
		for _, w := range waiters {
			if w.h == h {
				k++
			}
		}
		return k
	}
	for step, op := range c.Ops {
		switch op.Op {
		case "adv":
			time.Sleep(time.Duration(op.Ms) * time.Millisecond)
		case "arrive":
			n.addPeer(op.P, FloodSubID, 0, nil)
		case "sub":
			n.recv(op.P, vfSubRPC(topicName, true))
		case "unsub":
			n.recv(op.P, vfSubRPC(topicName, false))
		case "burst":
			// every peer flips its subscription within one turn of the event loop: several events before anybody runs
			n.eval(func() {
				for p := 1; p <= c.Peers; p++ {
					f := n.fake(p)
					_, in := n.ps.topics[topicName][f.ID]
					rpc := vfSubRPC(topicName, !in)
					rpc.from = f.ID
					n.ps.handleIncomingRPC(rpc)
				}
			})
			res.label("burst")
		case "depart":
			n.killPeer(op.P, true)
		case "inclose":
			n.closeInbound(op.P, FloodSubID)
		case "newhandler":
			if len(hs) >= 3 {
				continue
			}
			if len(members()) > 0 {
				nt = true
				res.label("handler-created-with-members")
			}
			h, err := th.EventHandler()
			if err != nil {
				res.violate("C18/handler-error", step, "%v", err)
				continue
			}
			hs = append(hs, &hstate{h: h, f: newC18Fold()})
		case "newhandlerrace":
			// a handler is created while a membership change of peer P is already waiting for the event loop: the change
			// is served first, then the handler takes its snapshot; its stream must start from that snapshot
			if len(hs) >= 3 {
				continue
			}
			gate := make(chan struct{})
			n.ps.eval <- func() { <-gate }
			n.settle()
			f := n.fake(op.P)
			var in bool
			// (the loop is held: read the membership directly)
			_, in = n.ps.topics[topicName][f.ID]
			rpcDone := make(chan struct{})
			go func() {
				defer close(rpcDone)
				n.recv(op.P, vfSubRPC(topicName, !in))
			}()
			n.settle()
			type hres struct {
				h   *TopicEventHandler
				err error
			}
			hch := make(chan hres, 1)
			go func() {
				h, err := th.EventHandler()
				hch <- hres{h, err}
			}()
			n.settle()
			close(gate)
			<-rpcDone
			hr := <-hch
			n.settle()
			if hr.err != nil {
				res.violate("C18/handler-error", step, "%v", hr.err)
				continue
			}
			hs = append(hs, &hstate{h: hr.h, f: newC18Fold()})
			nt = true
			res.label("handler-created-behind-a-pending-change")
		case "closerace":
			// Topic.Close and Topic.EventHandler are called on the same handle while the event loop is busy, so both
			// requests are pending together. Either the handler is created and Close fails, or Close succeeds and no
			// handler is returned; a handler that is returned is a handler of the topic and is judged like any other.
			// (No quiescence point while the two calls are in flight: one of them may be waiting for Topic.mux.)
			if len(hs) >= 3 {
				continue
			}
			gate := make(chan struct{})
			n.ps.eval <- func() { <-gate }
			n.settle()
			type hres struct {
				h   *TopicEventHandler
				err error
			}
			closeCh := make(chan error, 1)
			hch := make(chan hres, 1)
			old := th
			doClose := func() { closeCh <- old.Close() }
			doHandler := func() {
				h, err := old.EventHandler()
				hch <- hres{h, err}
			}
			first, second := doClose, doHandler
			if op.Ms%2 == 1 {
				first, second = doHandler, doClose
			}
			go first()
			for i := 0; i < 1+op.Ms%3; i++ {
				runtime.Gosched()
			}
			go second()
			for i := 0; i < 1+op.Ms%5; i++ {
				runtime.Gosched()
			}
			close(gate)
			cerr := <-closeCh
			hr := <-hch
			n.settle()
			nt = true
			if cerr == nil {
				res.label("closerace:closed")
				var jerr error
				if th, jerr = n.ps.Join(topicName); jerr != nil {
					res.violate("C18/handler-error", step, "Join after a successful Close: %v", jerr)
					break
				}
			} else {
				res.label("closerace:close-refused")
			}
			if hr.err != nil {
				if cerr != nil {
					res.violate("C18/handler-error", step, "EventHandler failed (%v) although the racing Close failed too (%v)", hr.err, cerr)
				}
				continue
			}
			if cerr == nil {
				res.label("closerace:handler-of-closed-topic")
			}
			hs = append(hs, &hstate{h: hr.h, f: newC18Fold()})
		case "next":
			if op.H >= len(hs) || hs[op.H].cancelled || blockedOn(op.H) > 0 {
				continue
			}
			st := hs[op.H]
			pend := pending(st.h)
			ctx, cancel := context.WithTimeout(context.Background(), time.Millisecond)
			ev, err := st.h.NextPeerEvent(ctx)
			cancel()
			if err != nil {
				if pend > 0 {
					res.violate("C18/event-not-delivered", step, "handler %d: NextPeerEvent timed out although %d event(s) were pending", op.H, pend)
				}
			} else {
				st.f.apply(res, step, fmt.Sprintf("handler %d", op.H), ev, name)
			}
		case "race":
			// two consumers start waiting while a burst of events arrives, with no quiescence in between: the
			// consumers may be anywhere between looking at the log and parking on the signal channel
			if op.H >= len(hs) || hs[op.H].cancelled || blockedOn(op.H) > 0 {
				continue
			}
			st := hs[op.H]
			for k := 0; k < 2; k++ {
				ctx, cancel := context.WithCancel(context.Background())
				w := &c18Waiter{h: op.H, cancel: cancel, done: make(chan struct{})}
				go func() {
					defer close(w.done)
					w.ev, w.err = st.h.NextPeerEvent(ctx)
				}()
				waiters = append(waiters, w)
			}
			for i := 0; i < op.Ms%4; i++ {
				runtime.Gosched()
			}
			n.eval(func() {
				for p := 1; p <= c.Peers; p++ {
					f := n.fake(p)
					_, in := n.ps.topics[topicName][f.ID]
					rpc := vfSubRPC(topicName, !in)
					rpc.from = f.ID
					n.ps.handleIncomingRPC(rpc)
				}
			})
			res.label("race")
		case "nextblock":
			if op.H >= len(hs) || hs[op.H].cancelled || blockedOn(op.H) >= 2 {
				continue
			}
			ctx, cancel := context.WithCancel(context.Background())
			w := &c18Waiter{h: op.H, cancel: cancel, done: make(chan struct{})}
			st := hs[op.H]
			go func() {
				defer close(w.done)
				w.ev, w.err = st.h.NextPeerEvent(ctx)
			}()
			waiters = append(waiters, w)
			if blockedOn(op.H) >= 2 {
				res.label("concurrent-waiters")
			}
		case "cancelwait":
			for _, w := range waiters {
				if w.h == op.H {
					w.cancel()
					res.label("wait-cancelled")
					break
				}
			}
		case "cancelhandler":
			if op.H < len(hs) && !hs[op.H].cancelled && blockedOn(op.H) == 0 {
				hs[op.H].h.Cancel()
				hs[op.H].cancelled = true
			}
		}
		synctest.Wait()
		reap(step)
		// quiescent: nobody may be blocked while its handler's log is non-empty
		for _, w := range waiters {
			if st := hs[w.h]; !st.cancelled && pending(st.h) > 0 {
				res.violate("C18/blocked-with-pending-events", step, "a NextPeerEvent call on handler %d is blocked although %d event(s) are pending", w.h, pending(st.h))
			} else {
				nt = true // an event will have to wake a blocked call
			}
		}
		if len(res.Viols) > 0 {
			break
		}
	}
	// quiet: release the waiters, drain every live handler, compare folds with the topic
	for _, w := range waiters {
		w.cancel()
	}
	synctest.Wait()
	reap(len(c.Ops))
	m := members()
	for i, st := range hs {
		if st.cancelled {
			continue
		}
		for k := 0; k < 100; k++ {
			pend := pending(st.h)
			ctx, cancel := context.WithTimeout(context.Background(), time.Millisecond)
			ev, err := st.h.NextPeerEvent(ctx)
			cancel()
			if err != nil {
				if pend > 0 {
					res.violate("C18/event-not-delivered", len(c.Ops), "handler %d: NextPeerEvent timed out although %d event(s) were pending", i, pend)
				}
				break
			}
			st.f.apply(res, len(c.Ops), fmt.Sprintf("handler %d", i), ev, name)
		}
		if !st.f.equal(m) {
			res.violate("C18/fold-mismatch", len(c.Ops), "handler %d: replaying its events gives %d peers, the topic has %d", i, len(st.f.set), len(m))
		}
	}
	res.NT = nt
}

func TestVfC18Node(t *testing.T) {
	vfCheck(t, "C18", c18Gen, c18Run)
}

// ---------------------------------------------------------------------------------------------------
// forced schedule: consumers held between looking at the log and parking on the signal channel (verif hook)

type c18ForcedCase struct {
	Waiters int  `json:"waiters"`
	Events  int  `json:"events"`
	Pre     int  `json:"pre"` // events already pending and consumed before (leaves a stale token or not)
	Elide   bool `json:"elide"`
}

func c18ForcedGen(rt *rapid.T) c18ForcedCase {
	return c18ForcedCase{Waiters: rapid.IntRange(1, 3).Draw(rt, "waiters"), Events: rapid.IntRange(1, 4).Draw(rt, "events"),
		Pre: rapid.IntRange(0, 2).Draw(rt, "pre"), Elide: rapid.Bool().Draw(rt, "elide")}
}

func c18ForcedRun(t *testing.T, c c18ForcedCase) (res vfResult) {
	c15HookMu.Lock() // verifHook is process-global
	defer c15HookMu.Unlock()
	defer func() { verifHook = nil }()
	msg := vfBubble(t, func() {
		topic := &Topic{topic: "t", evtHandlers: map[*TopicEventHandler]struct{}{}}
		h := c18NewHandler(topic, nil)
		dead, cancelDead := context.WithCancel(context.Background())
		cancelDead()
		for i := 0; i < c.Pre; i++ {
			topic.sendNotification(PeerEvent{PeerJoin, vfPeer(20 + i).ID})
		}
		for i := 0; i < c.Pre; i++ {
			if _, err := h.NextPeerEvent(dead); err != nil {
				res.violate("C18/event-not-delivered", 0, "pending event not returned: %v", err)
			}
		}
		release := make(chan struct{})
		held := 0
		var hookMu sync.Mutex
		verifHook = func(point string) {
			if point != "topiceventhandler.next.beforeSelect" {
				return
			}
			hookMu.Lock()
			hold := held < c.Waiters
			if hold {
				held++
			}
			hookMu.Unlock()
			if hold {
				<-release
			}
		}
		ctx, cancel := context.WithCancel(context.Background())
		done := make(chan PeerEvent, c.Waiters)
		var wg sync.WaitGroup
		for i := 0; i < c.Waiters; i++ {
			wg.Add(1)
			go func() {
				defer wg.Done()
				if ev, err := h.NextPeerEvent(ctx); err == nil {
					done <- ev
				}
			}()
		}
		synctest.Wait() // every consumer has seen an empty log and is held just before it would wait
		for i := 0; i < c.Events; i++ {
			topic.sendNotification(PeerEvent{PeerJoin, vfPeer(1 + i).ID})
		}
		pendingWant := c.Events
		if c.Elide {
			topic.sendNotification(PeerEvent{PeerLeave, vfPeer(1).ID}) // join and leave before either is consumed
			pendingWant--
		}
		close(release)
		synctest.Wait()
		got := len(done)
		want := c.Waiters
		if pendingWant < want {
			want = pendingWant
		}
		h.evtLogMx.Lock()
		left := len(h.evtLog)
		h.evtLogMx.Unlock()
		if got != want {
			res.violate("C18/blocked-with-pending-events", 0, "%d consumers were waiting, %d events arrived while they were between the log check and the wait: %d returned, %d expected (%d events still pending)", c.Waiters, pendingWant, got, want, left)
		}
		verifHook = nil
		cancel()
		wg.Wait()
		res.NT = true
		res.label(fmt.Sprintf("waiters:%d/events:%d", c.Waiters, pendingWant))
	})
	if msg != "" {
		res.violate("C18/panic", -1, "%s", msg)
	}
	return
}

func TestVfC18Forced(t *testing.T) {
	vfCheck(t, "C18", c18ForcedGen, c18ForcedRun)
}
