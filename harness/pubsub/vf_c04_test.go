package pubsub

// C04 — validator verdicts decide delivery, forwarding and penalties (DESIGN §5 C04).
// Direct-driven gossipsub node with scoring (so that penalties are observable), up to four scripted validators
// (default / topic, inline / asynchronous, optional timeout), copies arriving during and after validation.

import (
	"context"
	"fmt"
	"sort"
	"strings"
	"sync"
	"testing"
	"time"

	"github.com/libp2p/go-libp2p/core/peer"
	"pgregory.net/rapid"
)

type c04Val struct {
	Scope     int  `json:"scope,omitempty"`  // 0 default validator, 1 validator of topic A, 2 validator of topic B (at most one each)
	Inline    bool `json:"inline,omitempty"`
	TimeoutMs int  `json:"timeout_ms,omitempty"`
}

type c04Dup struct {
	P    int `json:"p"`
	AtMs int `json:"at_ms"`
}

type c04Msg struct {
	Local    bool     `json:"local,omitempty"`
	OnB      bool     `json:"on_b,omitempty"` // published on topic B
	From     int      `json:"from"`
	Verdicts []int    `json:"verdicts"` // per validator: 0 accept, 1 reject, 2 ignore, others out of range
	Delays   []int    `json:"delays_ms"`
	Dups     []c04Dup `json:"dups,omitempty"`
	Twin     bool     `json:"twin,omitempty"` // a second, different message (on the other topic) arrives in the same RPC
	TwinLast bool     `json:"twin_last,omitempty"`
}

type c04Case struct {
	Vals     []c04Val `json:"validators"`
	Workers  int      `json:"workers"`
	Throttle string   `json:"throttle,omitempty"` // "", global1, validator1, queue1
	Peers    int      `json:"peers"`
	Msgs     []c04Msg `json:"msgs"`
}

var c04VerdictPool = []int{0, 0, 0, 1, 2, 7, -1, -5}

func c04Gen(rt *rapid.T) c04Case {
	var c c04Case
	nv := rapid.IntRange(1, 5).Draw(rt, "nvals")
	has := map[int]bool{}
	for i := 0; i < nv; i++ {
		v := c04Val{Inline: rapid.Bool().Draw(rt, "inline")}
		if sc := rapid.IntRange(0, 3).Draw(rt, "scope"); sc >= 2 && !has[sc-1] {
			v.Scope = sc - 1
			has[v.Scope] = true
		}
		if !v.Inline && rapid.IntRange(0, 4).Draw(rt, "hasTimeout") == 0 {
			v.TimeoutMs = rapid.SampledFrom([]int{5, 50}).Draw(rt, "timeout")
		}
		c.Vals = append(c.Vals, v)
	}
	c.Workers = rapid.IntRange(1, 3).Draw(rt, "workers")
	c.Throttle = rapid.SampledFrom([]string{"", "", "", "", "global1", "validator1", "queue1"}).Draw(rt, "throttle")
	c.Peers = rapid.IntRange(2, 5).Draw(rt, "peers")
	nm := rapid.IntRange(1, 4).Draw(rt, "nmsgs")
	for i := 0; i < nm; i++ {
		m := c04Msg{Local: rapid.IntRange(0, 3).Draw(rt, "local") == 0, From: rapid.IntRange(1, c.Peers).Draw(rt, "from"), OnB: rapid.IntRange(0, 2).Draw(rt, "onB") == 0}
		for range c.Vals {
			m.Verdicts = append(m.Verdicts, rapid.SampledFrom(c04VerdictPool).Draw(rt, "verdict"))
			m.Delays = append(m.Delays, rapid.SampledFrom([]int{0, 0, 1, 10, 20, 100}).Draw(rt, "delay"))
		}
		if !m.Local {
			for k := 0; k < rapid.IntRange(0, 3).Draw(rt, "ndups"); k++ {
				m.Dups = append(m.Dups, c04Dup{P: rapid.IntRange(1, c.Peers).Draw(rt, "dp"), AtMs: rapid.SampledFrom([]int{0, 0, 5, 15, 60, 300}).Draw(rt, "dat")})
			}
			m.Twin = rapid.Bool().Draw(rt, "twin")
			m.TwinLast = rapid.Bool().Draw(rt, "twinLast")
		}
		c.Msgs = append(c.Msgs, m)
	}
	return c
}

func c04Run(t *testing.T, c c04Case) (res vfResult) {
	msg := vfBubble(t, func() { c04RunInBubble(t, c, &res) })
	if msg != "" {
		res.violate("C04/panic", -1, "%s", msg)
	}
	return
}

func c04RunInBubble(t *testing.T, c c04Case, res *vfResult) {
	topicA, topicB := vfTopic(0), vfTopic(1)
	var mu sync.Mutex
	invoked := map[string][]int{}  // data -> per validator invocation count
	returned := map[string][]int{} // data -> verdict each validator actually returned (-100 = none yet)
	script := map[string]*c04Msg{}
	mk := func(idx int) ValidatorEx {
		return func(ctx context.Context, p peer.ID, m *Message) ValidationResult {
			data := string(m.Data)
			mu.Lock()
			sc := script[data]
			if sc == nil {
				mu.Unlock()
				return ValidationAccept // the twin message: accepted by everybody, possibly slowly
			}
			invoked[data][idx]++
			d := time.Duration(sc.Delays[idx]) * time.Millisecond
			v := sc.Verdicts[idx]
			mu.Unlock()
			if d > 0 {
				select {
				case <-time.After(d):
				case <-ctx.Done():
					// a validator that honours its context and gives up: it has no verdict, the message is ignored
					v = 2
				}
			}
			mu.Lock()
			returned[data][idx] = v
			mu.Unlock()
			return ValidationResult(v)
		}
	}
	gp := DefaultGossipSubParams()
	gp.D, gp.Dlo, gp.Dhi, gp.Dscore, gp.Dout = 6, 1, 12, 0, 0
	tsp := func() *TopicScoreParams {
		return &TopicScoreParams{SkipAtomicValidation: true, TopicWeight: 1, InvalidMessageDeliveriesWeight: -1, InvalidMessageDeliveriesDecay: 0.9999}
	}
	opts := []Option{
		WithPeerScore(&PeerScoreParams{AppSpecificScore: func(peer.ID) float64 { return 0 }, DecayInterval: time.Hour, DecayToZero: 0.0001, Topics: map[string]*TopicScoreParams{topicA: tsp(), topicB: tsp()}},
			&PeerScoreThresholds{GossipThreshold: -1e9, PublishThreshold: -1e9, GraylistThreshold: -1e9, AcceptPXThreshold: 1e9}),
	}
	switch c.Throttle {
	case "global1":
		opts = append(opts, WithValidateThrottle(1))
	case "queue1":
		opts = append(opts, WithValidateQueueSize(1))
	}
	topicVal := map[int]ValidatorEx{}
	topicValOpts := map[int][]ValidatorOpt{}
	for i, v := range c.Vals {
		var vo []ValidatorOpt
		if v.Inline {
			vo = append(vo, WithValidatorInline(true))
		}
		if v.TimeoutMs > 0 {
			vo = append(vo, WithValidatorTimeout(time.Duration(v.TimeoutMs)*time.Millisecond))
		}
		if c.Throttle == "validator1" {
			vo = append(vo, WithValidatorConcurrency(1))
		}
		if v.Scope > 0 {
			topicVal[v.Scope], topicValOpts[v.Scope] = mk(i), vo
		} else {
			opts = append(opts, WithDefaultValidator(mk(i), vo...))
		}
	}
	n, err := newVfNode(t, vfNodeCfg{Router: "gossipsub", Params: &gp, ManualHeartbeat: true, Workers: c.Workers, Opts: opts})
	if err != nil {
		res.Inconclusive = err.Error()
		return
	}
	defer n.close()
	for sc, tn := range map[int]string{1: topicA, 2: topicB} {
		if v := topicVal[sc]; v != nil {
			if err := n.ps.RegisterTopicValidator(tn, v, topicValOpts[sc]...); err != nil {
				res.Inconclusive = err.Error()
				return
			}
		}
	}
	thA, _ := n.ps.Join(topicA)
	thB, _ := n.ps.Join(topicB)
	subA, _ := thA.Subscribe(WithBufferSize(256))
	subB, _ := thB.Subscribe(WithBufferSize(256))
	for p := 1; p <= c.Peers; p++ {
		n.addPeer(p, GossipSubID_v11, 0, nil)
		for _, tn := range []string{topicA, topicB} {
			n.recv(p, vfSubRPC(tn, true))
			n.recv(p, vfGraftRPC(tn))
		}
	}
	n.drain()
	invalid := func(p int) float64 {
		var v float64
		n.eval(func() {
			n.gs.score.Lock()
			if st, ok := n.gs.score.peerStats[vfPeer(p).ID]; ok {
				for _, ts := range st.topics {
					v += ts.invalidMessageDeliveries
				}
			}
			n.gs.score.Unlock()
		})
		return v
	}
	drainSub := func() map[string]int {
		out := map[string]int{}
		for {
			select {
			case m := <-subA.ch:
				out[string(m.Data)]++
			case m := <-subB.ch:
				out[string(m.Data)]++
			default:
				return out
			}
		}
	}
	seq := uint64(40000)
	nontrivial := false

	for mi, m := range c.Msgs {
		m := m
		data := fmt.Sprintf("msg-%d", mi)
		mu.Lock()
		script[data] = &m
		invoked[data] = make([]int, len(c.Vals))
		returned[data] = make([]int, len(c.Vals))
		for i := range returned[data] {
			returned[data][i] = -100
		}
		mu.Unlock()
		before := map[int]float64{}
		for p := 1; p <= c.Peers; p++ {
			before[p] = invalid(p)
		}
		copies := map[int]int{} // peer -> copies it sent
		msgID := ""
		var pubErr error
		published := make(chan struct{})
		topic, other, th := topicA, topicB, thA
		if m.OnB {
			topic, other, th = topicB, topicA, thB
		}
		if m.Local {
			go func() {
				pubErr = th.Publish(n.ctx, []byte(data))
				close(published)
			}()
		} else {
			seq++
			pm := vfSignedMsg(vfPeer(35), topic, seq, []byte(data))
			msgID = n.ps.idGen.ID(&Message{Message: pm})
			if m.Twin {
				// both messages are handed to the validation front end back to back, before any worker runs
				seq++
				tw := vfSignedMsg(vfPeer(35), other, seq, []byte("twin-"+data))
				if m.TwinLast {
					n.recv(m.From, vfMsgRPC(pm, tw))
				} else {
					n.recv(m.From, vfMsgRPC(tw, pm))
				}
			} else {
				n.recv(m.From, vfMsgRPC(pm))
			}
			copies[m.From]++
			dups := append([]c04Dup(nil), m.Dups...)
			sort.Slice(dups, func(i, j int) bool { return dups[i].AtMs < dups[j].AtMs })
			at := 0
			for _, d := range dups {
				if d.AtMs > at {
					time.Sleep(time.Duration(d.AtMs-at) * time.Millisecond)
					at = d.AtMs
				}
				n.recv(d.P, vfMsgRPC(pm))
				copies[d.P]++
			}
			close(published)
		}
		time.Sleep(time.Second)
		n.settle()
		<-published
		got := drainSub()
		sent := n.drain()
		forwarded := 0
		for _, w := range sent {
			for _, pm := range w.RPC.Publish {
				if string(pm.Data) == data {
					forwarded++
				}
			}
		}
		mu.Lock()
		inv := append([]int(nil), invoked[data]...)
		ret := append([]int(nil), returned[data]...)
		mu.Unlock()
		allInvoked, allAccept, anyReject, anyOther := true, true, false, false
		for i, v := range c.Vals {
			applies := v.Scope == 0 || (v.Scope == 1) == !m.OnB
			if !applies {
				if inv[i] > 0 {
					res.violate("C04/foreign-validator-invoked", mi, "validator %d belongs to the other topic and was invoked for this message", i)
				}
				continue
			}
			if inv[i] > 1 {
				res.violate("C04/validator-invoked-twice", mi, "validator %d was invoked %d times for one message", i, inv[i])
			}
			if inv[i] == 0 {
				allInvoked = false
			}
			switch {
			case ret[i] == -100:
				allAccept = false
			case ret[i] == 0:
			case ret[i] == 1:
				anyReject, allAccept = true, false
			default:
				anyOther, allAccept = true, false
			}
		}
		delivered := got[data]
		canThrottle := c.Throttle != "" && (m.Twin || mi > 0)
		desc := fmt.Sprintf("message %d (local=%v, verdicts %v, delays %v, validators %s): invoked %v, returned %v", mi, m.Local, m.Verdicts, m.Delays, c04Describe(c.Vals), inv, ret)
		if delivered > 1 {
			res.violate("C04/delivered-twice", mi, "%s: delivered %d times", desc, delivered)
		}
		if (delivered > 0 || forwarded > 0) && !(allInvoked && allAccept) {
			res.violate("C04/delivered-without-all-accept", mi, "%s: delivered=%d forwarded=%d", desc, delivered, forwarded)
		}
		// copies refused by a full validation queue or a throttled validator never reach a verdict; if that happened to
		// every copy, nothing is owed (relevant when no validator applies, so that "all accepted" holds vacuously)
		throttledCopies, totalCopies := 0, 0
		for _, k := range copies {
			totalCopies += k
		}
		for _, ev := range n.raw.snapshot() {
			if ev.Kind == "reject" && ev.MsgID == msgID && (ev.Reason == RejectValidationQueueFull || ev.Reason == RejectValidationThrottled) {
				throttledCopies++
			}
		}
		if canThrottle && throttledCopies >= totalCopies && totalCopies > 0 && delivered == 0 && forwarded == 0 {
			res.label("every-copy-throttled")
		} else if allInvoked && allAccept && (delivered != 1 || forwarded == 0) {
			res.violate("C04/accepted-not-delivered", mi, "%s: every validator accepted, delivered=%d forwarded to %d peers", desc, delivered, forwarded)
		}
		if !anyReject && !allInvoked && !canThrottle && !m.Local {
			res.violate("C04/validator-skipped", mi, "%s: a validator never ran although nothing rejected the message and nothing can throttle here", desc)
		}
		if m.Local {
			if (allInvoked && allAccept) != (pubErr == nil) {
				res.violate("C04/local-publish-result", mi, "%s: Publish returned %v", desc, pubErr)
			}
			if pubErr != nil && (delivered > 0 || forwarded > 0) {
				res.violate("C04/failed-local-publish-left-the-node", mi, "%s: Publish failed (%v) but delivered=%d forwarded=%d", desc, pubErr, delivered, forwarded)
			}
		} else {
			for p := 1; p <= c.Peers; p++ {
				d := invalid(p) - before[p]
				switch {
				case anyReject && copies[p] > 0 && d < 1 && c.Throttle == "":
					res.violate("C04/forwarder-not-penalised", mi, "%s: peer %d forwarded %d copies of a rejected message and was not penalised", desc, p, copies[p])
				case anyReject && d > float64(copies[p]):
					res.violate("C04/over-penalised", mi, "%s: peer %d sent %d copies and its invalid-delivery counter rose by %g", desc, p, copies[p], d)
				case !anyReject && d != 0:
					res.violate("C04/penalised-without-reject", mi, "%s: no validator rejected, yet peer %d's invalid-delivery counter rose by %g", desc, p, d)
				}
			}
		}
		distinct := map[int]bool{}
		for _, v := range m.Verdicts {
			distinct[v] = true
		}
		if len(c.Vals) >= 2 && len(distinct) >= 2 {
			nontrivial = true
			res.label("mixed-verdicts")
		}
		if len(m.Dups) > 0 {
			nontrivial = true
			res.label("duplicates")
		}
		if canThrottle {
			nontrivial = true
			res.label("may-throttle:" + c.Throttle)
		}
		if anyReject {
			res.label("rejected")
		} else if anyOther {
			res.label("ignored")
		}
		if m.Local {
			res.label("local")
		}
		if len(res.Viols) > 0 {
			return
		}
	}
	res.NT = nontrivial
}

func c04Describe(vs []c04Val) string {
	var parts []string
	for _, v := range vs {
		s := "default"
		if v.Scope > 0 {
			s = fmt.Sprintf("topic%c", 'A'+v.Scope-1)
		}
		if v.Inline {
			s += "/inline"
		} else {
			s += "/async"
		}
		if v.TimeoutMs > 0 {
			s += fmt.Sprintf("/timeout%dms", v.TimeoutMs)
		}
		parts = append(parts, s)
	}
	return "[" + strings.Join(parts, " ") + "]"
}

func TestVfC04Verdicts(t *testing.T) {
	vfCheck(t, "C04", c04Gen, c04Run)
}
