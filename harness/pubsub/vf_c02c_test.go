package pubsub

// C02 (batch part): at most one delivery per message ID also for messages published through a MessageBatch that the
// application reuses. Direct-driven gossipsub node; histories of AddToBatch / PublishBatch on one or two batch objects
// while the event loop is held up for generated stretches (so that a taken batch waits in the hand-off channel while
// the application already fills the batch object again).

import (
	"context"
	"fmt"
	"testing"

	"pgregory.net/rapid"
)

type c02cOp struct {
	Kind string `json:"k"` // add publish gate release
	B    int    `json:"b,omitempty"`
}

type c02cCase struct {
	Ops []c02cOp `json:"ops"`
}

func c02cGen(rt *rapid.T) c02cCase {
	var c c02cCase
	for i := 0; i < rapid.IntRange(2, 20).Draw(rt, "nops"); i++ {
		c.Ops = append(c.Ops, c02cOp{Kind: rapid.SampledFrom([]string{"add", "add", "add", "publish", "publish", "gate", "release"}).Draw(rt, "kind"), B: rapid.IntRange(0, 1).Draw(rt, "b")})
	}
	return c
}

func c02cRun(t *testing.T, c c02cCase) (res vfResult) {
	msg := vfBubble(t, func() { c02cRunInBubble(t, c, &res) })
	if msg != "" {
		res.violate("C02/panic", -1, "%s", msg)
	}
	return
}

func c02cRunInBubble(t *testing.T, c c02cCase, res *vfResult) {
	n, err := newVfNode(t, vfNodeCfg{Router: "gossipsub", ManualHeartbeat: true})
	if err != nil {
		res.Inconclusive = err.Error()
		return
	}
	defer n.close()
	th, err := n.ps.Join(vfTopic(0))
	if err != nil {
		res.Inconclusive = err.Error()
		return
	}
	sub, err := th.Subscribe(WithBufferSize(1024))
	if err != nil {
		res.Inconclusive = err.Error()
		return
	}
	var batches [2]MessageBatch
	var gate chan struct{}
	release := func() {
		if gate != nil {
			close(gate)
			gate = nil
			n.settle()
		}
	}
	added := 0
	pending := [2]int{} // messages added to the batch object since its last PublishBatch
	waiting := func() bool { return len(n.ps.sendMessageBatch) > 0 } // a taken batch waits in the hand-off channel (capacity 1)
	for _, op := range c.Ops {
		switch op.Kind {
		case "gate":
			if gate == nil {
				g := make(chan struct{})
				gate = g
				n.ps.eval <- func() { <-g } // the event loop is busy until released
				n.settle()
			}
		case "release":
			release()
		case "add":
			added++
			data := []byte(fmt.Sprintf("b-%d", added))
			if gate == nil {
				if err := th.AddToBatch(context.Background(), &batches[op.B], data); err != nil {
					res.violate("C02/batch-error", added, "AddToBatch failed: %v", err)
					return
				}
			} else {
				// AddToBatch hands a pre-processing step to the event loop. Let the loop go on, with another hold queued
				// right behind: whether it takes the waiting batch before or after this addition is up to its select
				raced := waiting()
				done := make(chan error, 1)
				go func() { done <- th.AddToBatch(context.Background(), &batches[op.B], data) }()
				n.settle()
				g2 := make(chan struct{})
				go func() { n.ps.eval <- func() { <-g2 } }()
				n.settle()
				close(gate)
				gate = g2
				if err := <-done; err != nil {
					res.violate("C02/batch-error", added, "AddToBatch failed: %v", err)
					return
				}
				n.settle()
				if raced {
					res.NT = true
					res.label("added-while-a-taken-batch-waits")
				}
			}
			pending[op.B]++
		case "publish":
			if gate != nil && waiting() {
				// the hand-off channel holds one batch; a second PublishBatch would block until the loop runs again
				release()
			}
			if err := n.ps.PublishBatch(&batches[op.B]); err != nil {
				res.violate("C02/batch-error", added, "PublishBatch failed: %v", err)
				return
			}
			pending[op.B] = 0
			if gate == nil {
				n.settle()
			}
		}
	}
	release()
	for b := range batches {
		if pending[b] > 0 {
			n.ps.PublishBatch(&batches[b])
		}
	}
	n.settle()
	got := map[string]int{}
	for len(sub.ch) > 0 {
		m := <-sub.ch
		got[string(m.Data)]++
	}
	for k := 1; k <= added; k++ {
		d := fmt.Sprintf("b-%d", k)
		switch {
		case got[d] > 1:
			res.violate("C02/delivered-twice", k, "message %q, added to a batch once, was delivered %d times to one subscription", d, got[d])
		case got[d] == 0:
			res.violate("C02/batch-message-replaced", k, "message %q was added to a batch and the batch published, but it was never delivered (another message took its place)", d)
		}
	}
	if added > 0 {
		res.label("batch-messages")
	}
}

func TestVfC02cBatch(t *testing.T) {
	vfCheck(t, "C02", c02cGen, c02cRun)
}
