package pubsub

// C15 — the per-peer outbound queue is a linearizable bounded two-class FIFO (DESIGN §5 C15).
//   TestVfC15Seq     bounded-exhaustive sequential histories against a reference two-class FIFO
//   TestVfC15Conc    generated concurrent histories under synctest, judged at quiescence
//   TestVfC15Forced  cancel forced into the window between the context check and the condition wait (hook)
//   TestVfC15Stress  real goroutines racing cancel against pop (thorough tier; stack-state oracle)

import (
	"context"
	"errors"
	"fmt"
	"os"
	"runtime"
	"sort"
	"strconv"
	"strings"
	"sync"
	"sync/atomic"
	"testing"
	"testing/synctest"
	"time"

	"github.com/libp2p/go-libp2p/core/peer"
	"pgregory.net/rapid"
)

// ---------------------------------------------------------------------------------------------------
// sequential, exhaustive

type c15Seq struct {
	Cap int    `json:"cap"`
	Ops string `json:"ops"` // n = push, u = urgent push, p = pop (enabled only when it cannot block), c = pop with cancelled context, x = close
}

type c15Model struct {
	cap      int
	normal   []int
	urgent   []int
	closed   bool
	nextItem int
}

func (m *c15Model) len() int { return len(m.normal) + len(m.urgent) }

// c15PushReported runs a push and reports (err, panicked value).
func c15Push(q *rpcQueue, rpc *RPC, urgent, block bool) (err error, pan any) {
	defer func() {
		if r := recover(); r != nil {
			pan = r
		}
	}()
	if urgent {
		err = q.UrgentPush(rpc, block)
	} else {
		err = q.Push(rpc, block)
	}
	return
}

func c15Item(i int) *RPC { return &RPC{from: peer.ID("i" + peerIDString(i))} }

func peerIDString(i int) string { return strconv.Itoa(i) }

func c15ItemNo(r *RPC) int {
	if r == nil {
		return -1
	}
	n, err := strconv.Atoi(strings.TrimPrefix(string(r.from), "i"))
	if err != nil {
		return -2
	}
	return n
}

// c15SeqRun runs one sequence inside a synctest bubble, each queue operation in a goroutine of its own: none of the
// operations of a sequential history may block (pushes are non-blocking, pops meet a non-empty queue or a cancelled
// context), and quiescence with the operation still pending shows one that does, without any clock.
func c15SeqRun(t *testing.T, c c15Seq) (res vfResult) {
	vfBubble(t, func() { c15SeqRunInBubble(c, &res) })
	return
}

// c15Returns runs f in a goroutine and reports whether it has returned once the bubble is quiescent.
func c15Returns(f func()) bool {
	done := make(chan struct{})
	go func() {
		defer close(done)
		f()
	}()
	synctest.Wait()
	select {
	case <-done:
		return true
	default:
		return false
	}
}

func c15SeqRunInBubble(c c15Seq, resp *vfResult) {
	var res vfResult
	defer func() { *resp = res }()
	q := newRpcQueue(c.Cap)
	m := &c15Model{cap: c.Cap}
	cancelled, cancel := context.WithCancel(context.Background())
	cancel()
	sawFull, sawOvertake, afterClose, popped := false, false, false, 0
	for step, op := range c.Ops {
		switch op {
		case 'n', 'u':
			urgent := op == 'u'
			m.nextItem++
			it := m.nextItem
			var err error
			var pan any
			if !c15Returns(func() { err, pan = c15Push(q, c15Item(it), urgent, false) }) {
				res.violate("C15/nonblocking-push-blocked", step, "a non-blocking push (urgent=%v) with %d/%d items queued did not return", urgent, m.len(), m.cap)
				return
			}
			switch {
			case m.closed:
				afterClose = true
				// must be reported, not silently accepted
				if pan == nil && err == nil {
					res.violate("C15/push-on-closed-accepted", step, "push on a closed queue returned nil")
				}
				if pan != nil {
					if e, ok := pan.(error); !ok || !errors.Is(e, ErrQueuePushOnClosed) {
						res.violate("C15/push-on-closed-wrong-report", step, "push on closed queue panicked with %v", pan)
					}
				}
			case m.len() == m.cap:
				sawFull = true
				if pan != nil {
					res.violate("C15/panic", step, "push panicked: %v", pan)
				} else if !errors.Is(err, ErrQueueFull) {
					res.violate("C15/full-not-reported", step, "non-blocking push on a full queue (cap %d) returned %v", m.cap, err)
				}
			default:
				if pan != nil {
					res.violate("C15/panic", step, "push panicked: %v", pan)
				} else if err != nil {
					res.violate("C15/spurious-push-error", step, "push with %d/%d items returned %v", m.len(), m.cap, err)
				}
				if urgent {
					if len(m.normal) > 0 {
						sawOvertake = true
					}
					m.urgent = append(m.urgent, it)
				} else {
					m.normal = append(m.normal, it)
				}
			}
		case 'p', 'c':
			ctx := context.Background()
			if op == 'c' {
				ctx = cancelled
			}
			if m.closed {
				afterClose = true
			}
			var rpc *RPC
			var err error
			if !c15Returns(func() { rpc, err = q.Pop(ctx) }) {
				res.violate("C15/pop-blocked", step, "a pop that must return at once (%d items queued, closed=%v, cancelled context=%v) did not return", m.len(), m.closed, op == 'c')
				return
			}
			switch {
			case m.closed:
				if !errors.Is(err, ErrQueueClosed) || rpc != nil {
					res.violate("C15/closed-not-reported", step, "pop on closed queue returned (%d, %v)", c15ItemNo(rpc), err)
				}
			case m.len() == 0: // only 'c' gets here
				if !errors.Is(err, ErrQueueCancelled) || rpc != nil {
					res.violate("C15/cancel-not-reported", step, "pop with cancelled context on empty queue returned (%d, %v)", c15ItemNo(rpc), err)
				}
			default:
				var want int
				if len(m.urgent) > 0 {
					want, m.urgent = m.urgent[0], m.urgent[1:]
				} else {
					want, m.normal = m.normal[0], m.normal[1:]
				}
				popped++
				if err != nil {
					res.violate("C15/spurious-pop-error", step, "pop on non-empty queue returned error %v", err)
				} else if got := c15ItemNo(rpc); got != want {
					res.violate("C15/order", step, "pop returned item %d, reference two-class FIFO says %d", got, want)
				}
			}
		case 'x':
			q.Close()
			m.closed = true
		}
		// invariant after every step
		q.queueMu.Lock()
		l := q.queue.Len()
		q.queueMu.Unlock()
		if l > c.Cap {
			res.violate("C15/over-capacity", step, "queue holds %d items, capacity %d", l, c.Cap)
		}
		if !m.closed && l != m.len() {
			res.violate("C15/length", step, "queue holds %d items, model %d (lost or duplicated)", l, m.len())
		}
		if len(res.Viols) > 0 {
			return
		}
	}
	if sawFull {
		res.label("full-refusal")
	}
	if sawOvertake {
		res.label("urgent-overtakes-normal")
	}
	if afterClose {
		res.label("op-after-close")
	}
	res.NT = popped > 0 && (sawFull || sawOvertake || afterClose)
	return
}

func c15Enum(maxLen int) func(yield func(c15Seq) bool) {
	shard, _ := strconv.Atoi(os.Getenv("VF_SHARD"))
	shards, _ := strconv.Atoi(os.Getenv("VF_SHARDS"))
	if shards <= 0 {
		shards = 1
	}
	return func(yield func(c15Seq) bool) {
		n := 0
		for L := 1; L <= maxLen; L++ { // by length, so the first failure found is a shortest one
			for cap := 1; cap <= 3; cap++ {
				buf := make([]byte, L)
				var rec func(pos, length int, closed bool) bool
				rec = func(pos, length int, closed bool) bool {
					if pos == L {
						n++
						if n%shards != shard {
							return true
						}
						return yield(c15Seq{Cap: cap, Ops: string(buf)})
					}
					for _, op := range []byte("nupcx") {
						l2, c2 := length, closed
						switch op {
						case 'n', 'u':
							if !closed && length < cap {
								l2++
							}
						case 'p':
							if !closed && length == 0 {
								continue // would block: not a sequential operation
							}
							if !closed {
								l2--
							}
						case 'c':
							if !closed && length > 0 {
								l2--
							}
						case 'x':
							c2 = true
						}
						buf[pos] = op
						if !rec(pos+1, l2, c2) {
							return false
						}
					}
					return true
				}
				if !rec(0, 0, false) {
					return
				}
			}
		}
	}
}

func TestVfC15Seq(t *testing.T) {
	maxLen := vfParamInt("maxlen", 7)
	vfNote("C15", t.Name(), "bound", fmt.Sprintf("all enabled sequences of length 1..%d over {push, urgent push, pop, pop-with-cancelled-context, close} for capacities 1..3", maxLen))
	vfExhaustive(t, "C15", c15Enum(maxLen), c15SeqRun)
}

// ---------------------------------------------------------------------------------------------------
// concurrent, generated, under synctest

type c15Actor struct {
	Kind   string `json:"kind"`          // push | pop | close
	Start  int    `json:"start"`         // virtual ms
	N      int    `json:"n,omitempty"`   // operations
	Gap    int    `json:"gap,omitempty"` // virtual ms between operations
	Urgent []bool `json:"urgent,omitempty"`
	Cancel int    `json:"cancel,omitempty"` // pop: cancel the context this many ms after start (0 = never)
}

type c15ConcCase struct {
	Cap    int        `json:"cap"`
	Actors []c15Actor `json:"actors"`
	// Aligned: actors get no individual micro-offset, so operations of different actors can fall into
	// the same virtual instant and race there (order-dependent oracles then abstain for those pairs).
	Aligned bool `json:"aligned,omitempty"`
}

func c15ConcGen(rt *rapid.T) c15ConcCase {
	c := c15ConcCase{Cap: rapid.IntRange(1, 3).Draw(rt, "cap")}
	np := rapid.IntRange(1, 4).Draw(rt, "pushers")
	nq := rapid.IntRange(1, 4).Draw(rt, "poppers")
	for i := 0; i < np; i++ {
		a := c15Actor{Kind: "push", Start: rapid.IntRange(0, 40).Draw(rt, "start"), N: rapid.IntRange(1, 5).Draw(rt, "n"), Gap: rapid.IntRange(0, 7).Draw(rt, "gap")}
		for j := 0; j < a.N; j++ {
			a.Urgent = append(a.Urgent, rapid.Bool().Draw(rt, "urgent"))
		}
		c.Actors = append(c.Actors, a)
	}
	for i := 0; i < nq; i++ {
		a := c15Actor{Kind: "pop", Start: rapid.IntRange(0, 40).Draw(rt, "start"), N: rapid.IntRange(1, 5).Draw(rt, "n"), Gap: rapid.IntRange(0, 7).Draw(rt, "gap")}
		if rapid.IntRange(0, 2).Draw(rt, "hasCancel") == 0 {
			a.Cancel = rapid.IntRange(1, 60).Draw(rt, "cancel")
		}
		c.Actors = append(c.Actors, a)
	}
	if rapid.IntRange(0, 2).Draw(rt, "hasClose") == 0 {
		// N = 1: the closer first takes one item (if there is one) and closes back to back, which lets a
		// pusher that was just woken by the pop find the queue closed when it resumes
		c.Actors = append(c.Actors, c15Actor{Kind: "close", Start: rapid.IntRange(0, 80).Draw(rt, "closeAt"), N: rapid.IntRange(0, 1).Draw(rt, "popFirst")})
	}
	c.Aligned = rapid.IntRange(0, 3).Draw(rt, "aligned") == 0
	return c
}

type c15Event struct {
	actor  int
	kind   string // push | pop
	item   int
	urgent bool
	begin  time.Duration
	end    time.Duration
	done   bool
	err    error
	pan    any
}

func c15ConcRun(t *testing.T, c c15ConcCase) (res vfResult) {
	// Operations are spread over distinct virtual instants: actor i works at t = k ms + i*10µs + 1µs*op, so two
	// operations never *start* in the same instant; a blocked one completes in the instant of its enabler.
	var mu sync.Mutex
	var events []*c15Event
	closedAt := time.Duration(-1)
	var atClose map[int]bool
	var base time.Time
	now := func() time.Duration { return time.Since(base) }
	blockedPush, blockedPop := int32(0), int32(0)
	var maxLen int32

	msg := vfBubble(t, func() {
		base = time.Now()
		q := newRpcQueue(c.Cap)
		item := 0
		var wg sync.WaitGroup
		for ai, a := range c.Actors {
			ai, a := ai, a
			off := time.Duration(ai+1) * 10 * time.Microsecond
			if c.Aligned {
				off = 0
			}
			switch a.Kind {
			case "push":
				items := make([]int, a.N)
				for j := range items {
					item++
					items[j] = item
				}
				wg.Add(1)
				go func() {
					defer wg.Done()
					time.Sleep(time.Duration(a.Start)*time.Millisecond + off)
					for j := 0; j < a.N; j++ {
						ev := &c15Event{actor: ai, kind: "push", item: items[j], urgent: a.Urgent[j], begin: now()}
						mu.Lock()
						events = append(events, ev)
						mu.Unlock()
						atomic.AddInt32(&blockedPush, 1)
						err, pan := c15Push(q, c15Item(items[j]), a.Urgent[j], true)
						atomic.AddInt32(&blockedPush, -1)
						q.queueMu.Lock()
						if l := int32(q.queue.Len()); l > atomic.LoadInt32(&maxLen) {
							atomic.StoreInt32(&maxLen, l)
						}
						q.queueMu.Unlock()
						mu.Lock()
						ev.end, ev.done, ev.err, ev.pan = now(), true, err, pan
						mu.Unlock()
						if pan != nil {
							return // queue closed: a pusher stops
						}
						time.Sleep(time.Duration(a.Gap)*time.Millisecond + time.Microsecond)
					}
				}()
			case "pop":
				wg.Add(1)
				go func() {
					defer wg.Done()
					ctx, cancel := context.WithCancel(context.Background())
					defer cancel()
					time.Sleep(time.Duration(a.Start)*time.Millisecond + off)
					if a.Cancel > 0 {
						go func() {
							time.Sleep(time.Duration(a.Cancel)*time.Millisecond + 5*time.Microsecond)
							cancel()
						}()
					}
					for j := 0; j < a.N; j++ {
						ev := &c15Event{actor: ai, kind: "pop", begin: now()}
						mu.Lock()
						events = append(events, ev)
						mu.Unlock()
						atomic.AddInt32(&blockedPop, 1)
						rpc, err := q.Pop(ctx)
						atomic.AddInt32(&blockedPop, -1)
						mu.Lock()
						ev.end, ev.done, ev.err, ev.item = now(), true, err, c15ItemNo(rpc)
						mu.Unlock()
						if err != nil {
							return
						}
						time.Sleep(time.Duration(a.Gap)*time.Millisecond + time.Microsecond)
					}
				}()
			case "close":
				wg.Add(1)
				go func() {
					defer wg.Done()
					time.Sleep(time.Duration(a.Start)*time.Millisecond + off)
					var ev *c15Event
					if a.N > 0 {
						dead, cancel := context.WithCancel(context.Background())
						cancel()
						ev = &c15Event{actor: ai, kind: "pop", begin: now()}
						rpc, err := q.Pop(dead) // never blocks: item if any, else ErrQueueCancelled
						q.Close()
						ev.end, ev.done, ev.err, ev.item = now(), true, err, c15ItemNo(rpc)
					} else {
						q.Close()
					}
					// what the queue held once Close had returned: nothing may join it afterwards
					q.queueMu.Lock()
					snap := map[int]bool{}
					for _, r := range q.queue.priority {
						snap[c15ItemNo(r)] = true
					}
					for _, r := range q.queue.normal {
						snap[c15ItemNo(r)] = true
					}
					q.queueMu.Unlock()
					mu.Lock()
					if ev != nil {
						events = append(events, ev)
					}
					atClose = snap
					closedAt = now()
					mu.Unlock()
				}()
			}
		}
		// let everything play out, then judge at quiescence
		time.Sleep(500 * time.Millisecond)
		synctest.Wait()

		mu.Lock()
		defer mu.Unlock()
		q.queueMu.Lock()
		var remaining []int
		for _, r := range q.queue.priority {
			remaining = append(remaining, c15ItemNo(r))
		}
		nUrgentLeft := len(remaining)
		for _, r := range q.queue.normal {
			remaining = append(remaining, c15ItemNo(r))
		}
		qlen := q.queue.Len()
		closed := q.closed
		q.queueMu.Unlock()
		_ = nUrgentLeft

		accepted := map[int]*c15Event{}
		poppedAt := map[int]time.Duration{}
		var pendingPush, pendingPop []*c15Event
		for _, ev := range events {
			switch ev.kind {
			case "push":
				if !ev.done {
					pendingPush = append(pendingPush, ev)
				} else if ev.pan == nil && ev.err == nil {
					accepted[ev.item] = ev
				} else if ev.pan != nil {
					if e, ok := ev.pan.(error); !ok || !errors.Is(e, ErrQueuePushOnClosed) {
						res.violate("C15/panic", 0, "push panicked with %v", ev.pan)
					} else if closedAt < 0 {
						res.violate("C15/push-on-closed-wrong-report", 0, "push reported a closed queue that was never closed")
					}
				} else {
					res.violate("C15/spurious-push-error", 0, "blocking push returned %v", ev.err)
				}
			case "pop":
				if !ev.done {
					pendingPop = append(pendingPop, ev)
				} else if ev.err == nil {
					if _, dup := poppedAt[ev.item]; dup {
						res.violate("C15/duplicated", 0, "item %d popped twice", ev.item)
					}
					poppedAt[ev.item] = ev.end
				} else if errors.Is(ev.err, ErrQueueClosed) {
					if closedAt < 0 {
						res.violate("C15/closed-not-reported", 0, "pop reported closed on a queue never closed")
					}
				} else if errors.Is(ev.err, ErrQueueCancelled) {
					if a := c.Actors[ev.actor]; a.Cancel == 0 && a.Kind != "close" {
						res.violate("C15/cancel-not-reported", 0, "pop reported cancellation but its context was never cancelled")
					}
				} else {
					res.violate("C15/spurious-pop-error", 0, "pop returned %v", ev.err)
				}
			}
		}
		// conservation
		for it := range poppedAt {
			if _, ok := accepted[it]; !ok {
				// the push may still be blocked? no: an item can only be popped after its push stored it, and a
				// push that stored the item returns nil without blocking again
				res.violate("C15/invented", 0, "item %d popped but its push never completed successfully", it)
			}
		}
		if !closed {
			inq := map[int]bool{}
			for _, it := range remaining {
				inq[it] = true
			}
			for it := range accepted {
				_, p := poppedAt[it]
				if !p && !inq[it] {
					res.violate("C15/lost", 0, "item %d was accepted, never popped and is not in the queue", it)
				}
				if p && inq[it] {
					res.violate("C15/duplicated", 0, "item %d popped and still queued", it)
				}
			}
		}
		if closed && atClose != nil {
			for _, it := range remaining {
				if !atClose[it] {
					res.violate("C15/push-on-closed-accepted", 0, "item %d joined the queue after Close had returned (its push was silently accepted)", it)
				}
			}
		}
		if int(atomic.LoadInt32(&maxLen)) > c.Cap {
			res.violate("C15/over-capacity", 0, "queue held %d items, capacity %d", maxLen, c.Cap)
		}
		// blocked operations must have resumed when space / data / cancel / close arrived
		if closed {
			if len(pendingPush)+len(pendingPop) > 0 {
				res.violate("C15/stuck-after-close", 0, "%d push(es) and %d pop(s) still blocked after Close", len(pendingPush), len(pendingPop))
			}
		} else {
			if len(pendingPush) > 0 && qlen < c.Cap {
				res.violate("C15/stuck-push", 0, "%d push(es) blocked although the queue holds %d/%d", len(pendingPush), qlen, c.Cap)
			}
			if len(pendingPop) > 0 && qlen > 0 {
				res.violate("C15/stuck-pop", 0, "%d pop(s) blocked although the queue holds %d items", len(pendingPop), qlen)
			}
			for _, ev := range pendingPop {
				a := c.Actors[ev.actor]
				if a.Cancel > 0 && time.Duration(a.Start+a.Cancel)*time.Millisecond+time.Millisecond < now() {
					res.violate("C15/cancel-lost", 0, "pop of actor %d still blocked although its context was cancelled at %dms", ev.actor, a.Start+a.Cancel)
				}
			}
		}
		// order: per producer and class FIFO; urgent before normal. Only pairs separated in virtual time are judged.
		type pe struct {
			ev  *c15Event
			pop time.Duration
		}
		byProd := map[[2]int][]pe{}
		for it, ev := range accepted {
			if t, ok := poppedAt[it]; ok {
				k := [2]int{ev.actor, 0}
				if ev.urgent {
					k[1] = 1
				}
				byProd[k] = append(byProd[k], pe{ev, t})
			}
		}
		for _, lst := range byProd {
			sort.Slice(lst, func(i, j int) bool { return lst[i].ev.item < lst[j].ev.item })
			for i := 1; i < len(lst); i++ {
				if lst[i].pop < lst[i-1].pop {
					res.violate("C15/order", 0, "items %d and %d of one producer and class were popped out of insertion order", lst[i-1].ev.item, lst[i].ev.item)
				}
			}
		}
		for it, ev := range accepted {
			if ev.urgent {
				continue
			}
			tp, ok := poppedAt[it]
			if !ok {
				continue
			}
			for uit, uev := range accepted {
				if !uev.urgent || uev.end >= tp {
					continue
				}
				if closedAt >= 0 && closedAt <= tp {
					continue
				}
				ut, popped := poppedAt[uit]
				if (popped && ut > tp) || (!popped && !closed) {
					res.violate("C15/order", 0, "normal item %d handed out at %v while urgent item %d (queued since %v) was waiting", it, tp, uit, uev.end)
				}
			}
		}
		// classification
		nblocked := 0
		for _, ev := range events {
			if ev.done && ev.end > ev.begin {
				nblocked++
			}
		}
		if nblocked > 0 {
			res.label("blocked-then-resumed")
		}
		if closedAt >= 0 {
			res.label("closed")
		}
		if len(pendingPop)+len(pendingPush) > 0 {
			res.label("still-blocked-at-end")
		}
		res.NT = nblocked > 0
		// unblock whatever is legitimately still waiting so the bubble can drain
		q.Close()
		mu.Unlock()
		wg.Wait()
		mu.Lock()
	})
	if msg != "" {
		res.violate("C15/harness-bubble", 0, "bubble ended abnormally: %s", msg)
	}
	return
}

func TestVfC15Conc(t *testing.T) {
	vfCheck(t, "C15", c15ConcGen, c15ConcRun)
}

// ---------------------------------------------------------------------------------------------------
// forced schedule: cancel lands between the context check and the condition wait

type c15ForcedCase struct {
	Cap        int  `json:"cap"`
	OtherPops  int  `json:"other_pops"`  // other poppers already waiting (their contexts stay live)
	Then       int  `json:"then"`        // 0 nothing, 1 push follows, 2 close follows
	ThenDelay  int  `json:"then_delay"`  // virtual ms
	Yields     int  `json:"yields"`      // how long the hook yields before letting Pop enter Wait
	PrePushPop bool `json:"prepushpop"`  // queue was used (push+pop) before
}

func c15ForcedGen(rt *rapid.T) c15ForcedCase {
	return c15ForcedCase{
		Cap:        rapid.IntRange(1, 3).Draw(rt, "cap"),
		OtherPops:  rapid.IntRange(0, 3).Draw(rt, "others"),
		Then:       rapid.IntRange(0, 2).Draw(rt, "then"),
		ThenDelay:  rapid.IntRange(1, 50).Draw(rt, "delay"),
		Yields:     rapid.SampledFrom([]int{50, 200, 1000}).Draw(rt, "yields"),
		PrePushPop: rapid.Bool().Draw(rt, "pre"),
	}
}

var c15HookMu sync.Mutex // verifHook is process-global: one forced case at a time

func c15ForcedRun(t *testing.T, c c15ForcedCase) (res vfResult) {
	c15HookMu.Lock()
	defer c15HookMu.Unlock()
	defer func() { verifHook = nil }()
	msg := vfBubble(t, func() {
		q := newRpcQueue(c.Cap)
		if c.PrePushPop {
			_ = q.Push(c15Item(1), false)
			_, _ = q.Pop(context.Background())
		}
		bg, bgCancel := context.WithCancel(context.Background())
		var wg sync.WaitGroup
		otherDone := int32(0)
		for i := 0; i < c.OtherPops; i++ {
			wg.Add(1)
			go func() {
				defer wg.Done()
				_, _ = q.Pop(bg)
				atomic.AddInt32(&otherDone, 1)
			}()
		}
		synctest.Wait() // the other poppers are parked in Wait

		ctx, cancel := context.WithCancel(context.Background())
		var target int64 // goroutine that is the victim: the hook fires only for the first arrival after arming
		armed := int32(1)
		verifHook = func(point string) {
			if point != "rpcqueue.pop.beforeWait" || !atomic.CompareAndSwapInt32(&armed, 1, 0) {
				return
			}
			_ = target
			cancel() // the cancel callback (Broadcast) now runs in its own goroutine ...
			for i := 0; i < c.Yields; i++ {
				runtime.Gosched() // ... while this goroutine, still before Wait, yields to it
			}
		}
		type popRes struct {
			rpc *RPC
			err error
		}
		done := make(chan popRes, 1)
		go func() {
			rpc, err := q.Pop(ctx)
			done <- popRes{rpc, err}
		}()
		synctest.Wait()
		// quiescent: the victim either returned or is parked for good
		var got *popRes
		select {
		case r := <-done:
			got = &r
		default:
		}
		if got == nil {
			res.violate("C15/cancel-lost", 0, "pop did not return although its context was cancelled between its context check and its wait (lost wake-up); %d other poppers waiting", c.OtherPops)
		} else if !errors.Is(got.err, ErrQueueCancelled) {
			res.violate("C15/cancel-not-reported", 0, "pop returned (%d, %v) after cancellation on an empty queue", c15ItemNo(got.rpc), got.err)
		}
		if n := atomic.LoadInt32(&otherDone); n != 0 {
			res.violate("C15/spurious-pop-return", 0, "%d other popper(s) with live contexts returned on somebody else's cancellation", n)
		}
		// what follows must still work
		time.Sleep(time.Duration(c.ThenDelay) * time.Millisecond)
		switch c.Then {
		case 1:
			if err, pan := c15Push(q, c15Item(7), false, false); err != nil || pan != nil {
				res.violate("C15/spurious-push-error", 1, "push after the cancelled pop: %v %v", err, pan)
			}
			synctest.Wait()
			if got == nil {
				// the stuck victim may now be rescued by the push; it then hands out an item for a cancelled caller
				select {
				case r := <-done:
					res.label("rescued-by-push")
					_ = r
				default:
				}
			} else if c.OtherPops > 0 {
				if n := atomic.LoadInt32(&otherDone); n != 1 {
					res.violate("C15/stuck-pop", 1, "one item pushed with %d poppers waiting, %d returned", c.OtherPops, n)
				}
			}
		case 2:
			q.Close()
			synctest.Wait()
			if n := int(atomic.LoadInt32(&otherDone)); n != c.OtherPops {
				res.violate("C15/stuck-after-close", 1, "%d of %d waiting poppers returned after Close", n, c.OtherPops)
			}
		}
		res.NT = true
		res.label(fmt.Sprintf("others:%d", c.OtherPops))
		res.label(fmt.Sprintf("then:%d", c.Then))
		// drain the bubble
		verifHook = nil
		bgCancel()
		q.Close()
		cancel()
		wg.Wait()
		if got == nil {
			<-done
		}
	})
	if msg != "" {
		res.violate("C15/harness-bubble", 0, "bubble ended abnormally: %s", msg)
	}
	return
}

func TestVfC15Forced(t *testing.T) {
	vfCheck(t, "C15", c15ForcedGen, c15ForcedRun)
}

// ---------------------------------------------------------------------------------------------------
// stress without hook (thorough): real goroutines, cancel raced against pop at generated offsets.
// Oracle without a timeout: a popper whose context is cancelled, whose cancel callback has finished, and
// which is still parked in sync.Cond.Wait in two consecutive goroutine dumps can never wake again.

type c15StressCase struct {
	Spin  int `json:"spin"`  // busy iterations before cancel
	Round int `json:"round"` // rounds in this case
}

func c15StressGen(rt *rapid.T) c15StressCase {
	return c15StressCase{Spin: rapid.IntRange(0, 400).Draw(rt, "spin"), Round: rapid.IntRange(200, 400).Draw(rt, "rounds")}
}

func c15StressRun(_ *testing.T, c c15StressCase) (res vfResult) {
	lost := 0
	for r := 0; r < c.Round && lost == 0; r++ {
		q := newRpcQueue(1)
		ctx, cancel := context.WithCancel(context.Background())
		done := make(chan error, 1)
		started := make(chan struct{})
		go func() {
			close(started)
			_, err := q.Pop(ctx)
			done <- err
		}()
		<-started
		for i := 0; i < c.Spin+r%7; i++ {
			_ = i * i
		}
		cancel()
		select {
		case err := <-done:
			if !errors.Is(err, ErrQueueCancelled) {
				res.violate("C15/cancel-not-reported", r, "pop returned %v after cancellation", err)
			}
			continue
		case <-time.After(200 * time.Millisecond):
		}
		// suspicious: decide by goroutine states, not by the clock
		parked := 0
		for i := 0; i < 40 && parked < 2; i++ {
			select {
			case <-done:
				parked = -1
			default:
			}
			if parked < 0 {
				break
			}
			if c15PopperParkedForGood() {
				parked++
			} else {
				parked = 0
			}
			time.Sleep(50 * time.Millisecond)
		}
		if parked >= 2 {
			lost++
			res.violate("C15/cancel-lost", r, "pop is parked in Cond.Wait with a cancelled context and no pending cancel callback (lost wake-up), spin=%d", c.Spin)
		}
		q.Close()
		<-done
	}
	res.NT = true
	return
}

func c15PopperParkedForGood() bool {
	buf := make([]byte, 1<<20)
	n := runtime.Stack(buf, true)
	dump := string(buf[:n])
	popperWaiting, callbackAlive := false, false
	for _, g := range strings.Split(dump, "\n\n") {
		if strings.Contains(g, "(*rpcQueue).Pop.func1") {
			callbackAlive = true
		}
		if strings.Contains(g, "(*rpcQueue).Pop(") && strings.Contains(g, "sync.(*Cond).Wait") {
			popperWaiting = true
		}
	}
	return popperWaiting && !callbackAlive
}

func TestVfC15Stress(t *testing.T) {
	vfCheck(t, "C15", c15StressGen, c15StressRun)
}
