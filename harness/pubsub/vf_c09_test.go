package pubsub

// C09 — score thresholds gate what a peer may send and receive (DESIGN §5 C09).
// Direct-driven gossipsub node with application-specific scores placed on and next to every threshold; each
// probe's observable effects are compared with the table the statement gives.

import (
	"fmt"
	"math"
	"testing"
	"time"

	pb "github.com/libp2p/go-libp2p-pubsub/pb"
	"github.com/libp2p/go-libp2p/core/peer"
	"github.com/libp2p/go-libp2p/core/record"
	ma "github.com/multiformats/go-multiaddr"
	"pgregory.net/rapid"
)

type c09Peer struct {
	Proto  int  `json:"proto"`
	Direct bool `json:"direct,omitempty"`
	Score  int  `json:"score"` // index into the score pool
	Topic1 bool `json:"topic1,omitempty"`
	Out    bool `json:"out,omitempty"` // we dialled the peer
}

type c09Op struct {
	Op string `json:"op"`
	P  int    `json:"p,omitempty"`
	S  int    `json:"s,omitempty"`
	N  int    `json:"n,omitempty"`
	K  int    `json:"k,omitempty"`
}

type c09Case struct {
	Gossip, Publish, Graylist, AcceptPX float64
	Flood                               bool `json:"flood"`
	Gater                               bool `json:"gater"`
	Joined                              bool `json:"joined"`
	SmallMesh                           bool `json:"small_mesh"` // Dhi = 3, so that GRAFTs also meet a full mesh
	Peers                               []c09Peer `json:"peers"`
	Ops                                 []c09Op   `json:"ops"`
}

func c09Pool(c *c09Case) []float64 {
	var pool []float64
	for _, t := range []float64{c.Gossip, c.Publish, c.Graylist, c.AcceptPX, 0} {
		pool = append(pool, t, math.Nextafter(t, math.Inf(1)), math.Nextafter(t, math.Inf(-1)))
	}
	return append(pool, 1, -1, 0.5, -0.5, 100, -100)
}

func c09Gen(rt *rapid.T) c09Case {
	var c c09Case
	c.Gossip = rapid.SampledFrom([]float64{0, -1, -2}).Draw(rt, "gossip")
	c.Publish = c.Gossip - rapid.SampledFrom([]float64{0, 1, 2}).Draw(rt, "dpub")
	c.Graylist = c.Publish - rapid.SampledFrom([]float64{0, 1, 3}).Draw(rt, "dgray")
	c.AcceptPX = rapid.SampledFrom([]float64{0, 1, 5}).Draw(rt, "px")
	c.Flood = rapid.Bool().Draw(rt, "flood")
	c.Gater = rapid.IntRange(0, 3).Draw(rt, "gater") == 0
	c.Joined = rapid.IntRange(0, 4).Draw(rt, "joined") > 0
	c.SmallMesh = rapid.IntRange(0, 2).Draw(rt, "smallmesh") == 0
	npool := len(c09Pool(&c))
	np := rapid.IntRange(2, 8).Draw(rt, "npeers")
	for i := 0; i < np; i++ {
		c.Peers = append(c.Peers, c09Peer{Proto: rapid.SampledFrom([]int{2, 2, 3, 4, 0, 1}).Draw(rt, "proto"), Direct: rapid.IntRange(0, 5).Draw(rt, "direct") == 0,
			Score: rapid.IntRange(0, npool-1).Draw(rt, "score"), Topic1: rapid.Bool().Draw(rt, "t1"), Out: rapid.Bool().Draw(rt, "out")})
	}
	n := rapid.IntRange(3, 40).Draw(rt, "nops")
	kinds := []string{"pub", "pub", "graft", "graft", "ihave", "ihave", "iwant", "iwant", "hb", "hb", "lpub", "lpub", "fpub", "fpub", "px", "px", "score", "score", "throttle", "mixed", "adv", "join1"}
	for i := 0; i < n; i++ {
		op := c09Op{Op: rapid.SampledFrom(kinds).Draw(rt, "op"), P: rapid.IntRange(1, np).Draw(rt, "p")}
		switch op.Op {
		case "score":
			op.S = rapid.IntRange(0, npool-1).Draw(rt, "s")
		case "px":
			op.N = rapid.IntRange(0, 4).Draw(rt, "kind") // 0 valid record, 1 record of another peer, 2 garbage, 3 no record, 4 already connected peer
			op.K = rapid.IntRange(0, 3).Draw(rt, "target")
		case "iwant":
			op.K = rapid.IntRange(0, 5).Draw(rt, "which")
		case "ihave":
			op.N = rapid.IntRange(1, 4).Draw(rt, "nids")
		case "throttle":
			op.N = rapid.IntRange(1, 6).Draw(rt, "rejects")
		case "adv":
			op.N = rapid.IntRange(0, 3000).Draw(rt, "ms")
		}
		c.Ops = append(c.Ops, op)
	}
	return c
}

func c09Run(t *testing.T, c c09Case) (res vfResult) {
	msg := vfBubble(t, func() { c09RunInBubble(t, c, &res) })
	if msg != "" {
		res.violate("C09/panic", -1, "%s", msg)
	}
	return
}

func c09SealRecord(id *vfIdent) []byte {
	rec := peer.NewPeerRecord()
	rec.PeerID = id.ID
	rec.Addrs = []ma.Multiaddr{ma.StringCast("/ip4/8.8.8.8/tcp/4001")}
	env, err := record.Seal(rec, id.Priv)
	if err != nil {
		panic(err)
	}
	b, err := env.Marshal()
	if err != nil {
		panic(err)
	}
	return b
}

func c09RunInBubble(t *testing.T, c c09Case, res *vfResult) {
	pool := c09Pool(&c)
	app := map[peer.ID]float64{}
	thr := &PeerScoreThresholds{GossipThreshold: c.Gossip, PublishThreshold: c.Publish, GraylistThreshold: c.Graylist, AcceptPXThreshold: c.AcceptPX, OpportunisticGraftThreshold: 0}
	if err := thr.validate(); err != nil {
		res.Inconclusive = "thresholds refused: " + err.Error()
		return
	}
	gp := DefaultGossipSubParams()
	gp.D, gp.Dlo, gp.Dhi, gp.Dscore, gp.Dout, gp.Dlazy = 8, 1, 20, 0, 0, 20
	if c.SmallMesh {
		gp.D, gp.Dlo, gp.Dhi = 2, 1, 3
	}
	gp.PruneBackoff = 5 * time.Second
	opts := []Option{
		WithPeerScore(&PeerScoreParams{AppSpecificScore: func(p peer.ID) float64 { return app[p] }, AppSpecificWeight: 1, DecayInterval: time.Hour, DecayToZero: 0.01,
			Topics: map[string]*TopicScoreParams{}}, thr),
		WithPeerExchange(true), WithFloodPublish(c.Flood),
	}
	var direct []peer.AddrInfo
	for i, p := range c.Peers {
		if p.Direct {
			direct = append(direct, peer.AddrInfo{ID: vfPeer(i + 1).ID})
		}
	}
	if len(direct) > 0 {
		opts = append(opts, WithDirectPeers(direct))
	}
	if c.Gater {
		opts = append(opts, WithPeerGater(NewPeerGaterParams(.1, .9, .999)))
	}
	n, err := newVfNode(t, vfNodeCfg{Router: "gossipsub", Params: &gp, ManualHeartbeat: true, Opts: opts})
	if err != nil {
		res.Inconclusive = "constructor refused: " + err.Error()
		return
	}
	defer n.close()

	t0, t1 := vfTopic(0), vfTopic(1)
	h0, _ := n.ps.Join(t0)
	h1, _ := n.ps.Join(t1)
	joined1 := false
	var sub *Subscription
	if c.Joined {
		sub, _ = h0.Subscribe()
	}
	score := func(p int) float64 { return app[vfPeer(p).ID] }
	isDirect := func(p int) bool { return c.Peers[p-1].Direct }
	proto := func(p int) int { return c.Peers[p-1].Proto }
	meshCap := func(p int) bool { return vfIsMesh(vfProto(proto(p))) }
	for i, p := range c.Peers {
		app[vfPeer(i+1).ID] = pool[p.Score]
		n.addPeer(i+1, vfProto(p.Proto), 0, []vfConnSpec{{Out: p.Out, IP: fmt.Sprintf("10.3.0.%d", i+1), Stream: true}})
		n.recv(i+1, vfSubRPC(t0, true))
		if p.Topic1 {
			n.recv(i+1, vfSubRPC(t1, true))
		}
	}
	n.drain()
	drainSub := func() []string {
		var ids []string
		if sub == nil {
			return nil
		}
		n.settle()
		for {
			select {
			case m := <-sub.ch:
				ids = append(ids, string(m.Data))
			default:
				return ids
			}
		}
	}
	has := func(ids []string, x string) bool {
		for _, s := range ids {
			if s == x {
				return true
			}
		}
		return false
	}
	mesh := func(topic string) map[peer.ID]bool {
		var m map[peer.ID]bool
		n.eval(func() { m = copySet(n.gs.mesh[topic]) })
		return m
	}
	fanout := func(topic string) map[peer.ID]bool {
		var m map[peer.ID]bool
		n.eval(func() { m = copySet(n.gs.fanout[topic]) })
		return m
	}
	recipients := func(sent []vfSent, data string) map[int]bool {
		out := map[int]bool{}
		for _, w := range sent {
			for _, m := range w.RPC.Publish {
				if string(m.Data) == data {
					out[w.To] = true
				}
			}
		}
		return out
	}
	near := func(v float64) bool {
		for _, t := range []float64{c.Gossip, c.Publish, c.Graylist, c.AcceptPX, 0} {
			if v == t || v == math.Nextafter(t, math.Inf(1)) || v == math.Nextafter(t, math.Inf(-1)) {
				return true
			}
		}
		return false
	}
	nontrivial := false
	backedOff := map[int]bool{}   // the peer was refused / pruned at some point: later admissions are not asserted
	var cached []string           // data strings of messages the node published itself, newest last
	cachedID := map[string]string{}
	cachedAge := map[string]int{}
	asked := map[[2]string]int{}  // (peer, data) -> IWANT requests so far
	ihaves := map[int]int{}       // IHAVE RPCs per peer in this heartbeat epoch
	throttling := false
	seq := uint64(1000)

	for step, op := range c.Ops {
		pid := vfPeer(op.P).ID
		sc := score(op.P)
		gray := !isDirect(op.P) && sc < c.Graylist
		if near(sc) {
			nontrivial = true
		}
		switch op.Op {
		case "graft", "mixed", "ihave", "iwant", "px":
			// the router's IHAVE flood protection counts every RPC with a control message, whatever it carries
			ihaves[op.P]++
		}
		switch op.Op {
		case "adv":
			time.Sleep(time.Duration(op.N) * time.Millisecond)
		case "score":
			app[pid] = pool[op.S]
		case "pub":
			// a valid message authored by a third party, forwarded by P
			seq++
			data := fmt.Sprintf("pub-%d", step)
			m := vfSignedMsg(vfPeer(30), t0, seq, []byte(data))
			n.recv(op.P, vfMsgRPC(m))
			n.settle()
			got := drainSub()
			sent := n.drain()
			fw := recipients(sent, data)
			if gray {
				if has(got, data) || len(fw) > 0 {
					res.violate("C09/graylisted-message-processed", step, "message from peer %d (score %g < graylist %g) was delivered=%v forwarded to %d peers", op.P, sc, c.Graylist, has(got, data), len(fw))
				}
				res.label("graylisted-publish")
			} else if c.Joined && (!throttling || isDirect(op.P)) { // RPCs of direct peers are accepted whatever the gater thinks
				if !has(got, data) {
					res.violate("C09/accepted-message-dropped", step, "message from peer %d (score %g >= graylist %g, direct=%v) was not delivered", op.P, sc, c.Graylist, isDirect(op.P))
				}
			}
			inMesh := mesh(t0)
			for to := range fw {
				if !isDirect(to) && !meshCap(to) && !inMesh[vfPeer(to).ID] && score(to) < c.Publish {
					res.violate("C09/below-publish-threshold-sent", step, "floodsub peer %d (score %g < publish %g) was sent a forwarded message", to, score(to), c.Publish)
				}
			}
		case "graft", "mixed":
			if !c.Joined {
				continue
			}
			pre := mesh(t0)
			rpc := vfGraftRPC(t0)
			data := fmt.Sprintf("mixed-%d", step)
			if op.Op == "mixed" {
				seq++
				rpc.Publish = []*pb.Message{vfSignedMsg(vfPeer(31), t0, seq, []byte(data))}
			}
			mark := len(n.raw.snapshot())
			n.recv(op.P, rpc)
			n.settle()
			post := mesh(t0)
			sent := n.drain()
			got := drainSub()
			var prune *pb.ControlPrune
			for _, w := range sent {
				if w.To == op.P && w.RPC.Control != nil {
					for _, pr := range w.RPC.Control.Prune {
						if pr.GetTopicID() == t0 {
							prune = pr
						}
					}
				}
			}
			throttled := false
			for _, e := range n.raw.snapshot()[mark:] {
				if e.Kind == "throttle" && e.Peer == pid {
					throttled = true
				}
			}
			switch {
			case pre[pid]:
				// already a member
			case gray:
				if post[pid] || prune != nil {
					res.violate("C09/graylisted-control-processed", step, "GRAFT from peer %d (score %g < graylist %g): in mesh=%v, answered with PRUNE=%v", op.P, sc, c.Graylist, post[pid], prune != nil)
				}
				res.label("graylisted-graft")
			case isDirect(op.P):
				if post[pid] {
					res.violate("C09/direct-grafted", step, "direct peer %d was admitted to the mesh", op.P)
				}
			case sc < 0:
				if post[pid] {
					res.violate("C09/negative-grafted", step, "GRAFT from peer %d with score %g admitted to the mesh", op.P, sc)
				}
				if prune == nil {
					res.violate("C09/negative-graft-no-prune", step, "GRAFT from peer %d with score %g was not answered with a PRUNE", op.P, sc)
				} else if len(prune.Peers) > 0 {
					res.violate("C09/px-to-negative-peer", step, "PRUNE refusing peer %d (score %g) carries %d peer-exchange records", op.P, sc, len(prune.Peers))
				}
				backedOff[op.P] = true
				res.label("negative-graft-refused")
			case len(pre) >= gp.Dhi && !c.Peers[op.P-1].Out:
				// a full mesh takes only peers we dialled ourselves; the refusal may carry peer exchange
				backedOff[op.P] = true
				res.label("full-mesh-refusal")
			case !backedOff[op.P] && meshCap(op.P):
				if !post[pid] {
					res.violate("C09/eligible-graft-refused", step, "GRAFT from peer %d (score %g, not direct, no back-off) was refused (throttled=%v)", op.P, sc, throttled)
				}
			}
			if throttled {
				res.label("gater-throttled")
				if !c.Gater {
					res.violate("C09/throttle-without-gater", step, "peer %d was throttled without a gater", op.P)
				}
				if has(got, data) {
					res.violate("C09/throttled-payload-delivered", step, "payload of a throttled RPC was delivered")
				}
			} else if op.Op == "mixed" && !gray && !has(got, data) {
				res.violate("C09/accepted-message-dropped", step, "payload from peer %d (score %g) in an RPC that was not throttled was not delivered", op.P, sc)
			}
		case "ihave":
			if !c.Joined {
				continue
			}
			var ids []string
			for k := 0; k < op.N; k++ {
				ids = append(ids, fmt.Sprintf("unseen-%d-%d", step, k))
			}
			n.recv(op.P, &RPC{RPC: pb.RPC{Control: &pb.ControlMessage{Ihave: []*pb.ControlIHave{{TopicID: &t0, MessageIDs: ids}}}}})
			sent := n.drain()
			nwant := 0
			for _, w := range sent {
				if w.To == op.P && w.RPC.Control != nil {
					for _, iw := range w.RPC.Control.Iwant {
						nwant += len(iw.MessageIDs)
					}
				}
			}
			switch {
			case gray || (!isDirect(op.P) && sc < c.Gossip):
				if nwant > 0 {
					res.violate("C09/ihave-below-gossip-threshold-followed", step, "IHAVE from peer %d (score %g, gossip threshold %g, graylist %g) answered with IWANT for %d ids", op.P, sc, c.Gossip, c.Graylist, nwant)
				}
				res.label("ihave-ignored")
			case sc >= c.Gossip && ihaves[op.P] <= gp.MaxIHaveMessages:
				if nwant != len(ids) {
					res.violate("C09/ihave-not-followed", step, "IHAVE with %d unseen ids from peer %d (score %g >= gossip %g) answered with IWANT for %d", len(ids), op.P, sc, c.Gossip, nwant)
				}
			}
		case "iwant":
			if len(cached) == 0 {
				continue
			}
			data := cached[op.K%len(cached)]
			asked[[2]string{string(pid), data}]++
			n.recv(op.P, &RPC{RPC: pb.RPC{Control: &pb.ControlMessage{Iwant: []*pb.ControlIWant{{MessageIDs: []string{cachedID[data]}}}}}})
			dsent := n.drain()
			served := recipients(dsent, data)[op.P]
			switch {
			case gray || (!isDirect(op.P) && sc < c.Gossip):
				if served {
					res.violate("C09/iwant-below-gossip-threshold-served", step, "IWANT from peer %d (score %g, gossip threshold %g) was served", op.P, sc, c.Gossip)
				}
				res.label("iwant-unanswered")
			case sc >= c.Gossip && cachedAge[data] < gp.HistoryLength && asked[[2]string{string(pid), data}] <= gp.GossipRetransmission:
				if !served {
					res.violate("C09/iwant-not-served", step, "IWANT from peer %d (score %g >= gossip %g) for a cached message was not served", op.P, sc, c.Gossip)
				}
			}
		case "join1":
			// subscribe to topic 1 (once): members of its fanout set are promoted into the mesh, the rest is selected
			if joined1 {
				continue
			}
			preFan := fanout(t1)
			if _, err := h1.Subscribe(); err != nil {
				res.violate("C09/publish-error", step, "Subscribe failed: %v", err)
				continue
			}
			joined1 = true
			n.settle()
			n.drain()
			for p := range mesh(t1) {
				idx := n.byID[p]
				if score(idx) < 0 {
					res.violate("C09/negative-grafted", step, "joining %s put peer %d (score %g < 0, fanout member before: %v) into the mesh", t1, idx, score(idx), preFan[p])
				}
			}
			if len(preFan) > 0 {
				res.label("join-with-fanout")
			}
		case "lpub", "fpub":
			// lpub: publish to topic 0 (mesh or flood); fpub: publish to topic 1, which is never joined (fan-out or flood)
			topic, h := t0, h0
			if op.Op == "fpub" {
				topic, h = t1, h1
			}
			data := fmt.Sprintf("%s-%d", op.Op, step)
			preFan := fanout(topic) // members selected earlier stay until the next heartbeat re-checks them
			preMesh := mesh(topic)
			if err := h.Publish(n.ctx, []byte(data)); err != nil {
				res.violate("C09/publish-error", step, "local publish failed: %v", err)
				continue
			}
			n.settle()
			sent := n.drain()
			rc := recipients(sent, data)
			drainSub()
			for _, w := range sent {
				for _, m := range w.RPC.Publish {
					if string(m.Data) == data {
						cachedID[data] = DefaultMsgIdFn(m)
					}
				}
			}
			if op.Op == "lpub" {
				if _, ok := cachedID[data]; !ok {
					// nobody was sent the message; its ID is still needed for IWANT probes (own messages are not
					// reported to raw tracers): the newest entry of the message cache
					n.eval(func() {
						if h := n.gs.mcache.history[0]; len(h) > 0 {
							cachedID[data] = h[len(h)-1].mid
						}
					})
				}
				cached = append(cached, data)
				cachedAge[data] = 0
			}
			for p := 1; p <= len(c.Peers); p++ {
				inTopic := topic == t0 || c.Peers[p-1].Topic1
				if !inTopic {
					if rc[p] {
						res.violate("C09/sent-outside-topic", step, "peer %d is not in %s and was sent the message", p, topic)
					}
					continue
				}
				below := !isDirect(p) && score(p) < c.Publish
				if c.Flood {
					if below && rc[p] {
						res.violate("C09/below-publish-threshold-sent", step, "flood publish reached peer %d (score %g < publish %g)", p, score(p), c.Publish)
					}
					if !below && !rc[p] {
						res.violate("C09/flood-publish-missed", step, "flood publish missed peer %d (score %g >= publish %g, direct=%v)", p, score(p), c.Publish, isDirect(p))
					}
				} else {
					if below && rc[p] && !preFan[vfPeer(p).ID] && !preMesh[vfPeer(p).ID] {
						res.violate("C09/below-publish-threshold-sent", step, "peer %d (score %g < publish %g, mesh-capable=%v) was chosen for %s", p, score(p), c.Publish, meshCap(p), op.Op)
					}
					if isDirect(p) && !rc[p] {
						res.violate("C09/direct-peer-missed", step, "direct peer %d in the topic was not sent the message", p)
					}
				}
			}
			if op.Op == "fpub" && !c.Flood {
				res.label("fanout-publish")
			}
		case "hb":
			preMesh := mesh(t0)
			n.heartbeat()
			sent := n.drain()
			postMesh := mesh(t0)
			for _, d := range cached {
				cachedAge[d]++
			}
			ihaves = map[int]int{}
			// gossip only to peers at or above the gossip threshold; every eligible peer gets it (Dlazy exceeds the peer count)
			gossipIDs := 0
			for _, d := range cached {
				if cachedAge[d] <= gp.HistoryGossip {
					gossipIDs++
				}
			}
			for p := 1; p <= len(c.Peers); p++ {
				ppid := vfPeer(p).ID
				gotIhave := false
				var prune *pb.ControlPrune
				grafted := false
				for _, w := range sent {
					if w.To != p || w.RPC.Control == nil {
						continue
					}
					for _, ih := range w.RPC.Control.Ihave {
						if ih.GetTopicID() == t0 && len(ih.MessageIDs) > 0 {
							gotIhave = true
						}
					}
					for _, pr := range w.RPC.Control.Prune {
						if pr.GetTopicID() == t0 {
							prune = pr
						}
					}
					for _, g := range w.RPC.Control.Graft {
						if g.GetTopicID() == t0 {
							grafted = true
						}
					}
				}
				if gotIhave && !isDirect(p) && score(p) < c.Gossip {
					res.violate("C09/ihave-below-gossip-threshold-sent", step, "heartbeat sent IHAVE to peer %d (score %g < gossip %g)", p, score(p), c.Gossip)
				}
				if gotIhave && (isDirect(p) || postMesh[ppid]) {
					res.violate("C09/ihave-to-mesh-or-direct", step, "heartbeat sent IHAVE to peer %d (direct=%v, mesh=%v)", p, isDirect(p), postMesh[ppid])
				}
				if c.Joined && gossipIDs > 0 && cachedAgeMin(cachedAge, cached) < gp.HistoryGossip && !gotIhave && !isDirect(p) && meshCap(p) && !postMesh[ppid] && !preMesh[ppid] && score(p) >= c.Gossip {
					res.violate("C09/ihave-missed", step, "peer %d (score %g >= gossip %g, not in mesh, not direct) got no IHAVE although %d messages are in the gossip window", p, score(p), c.Gossip, gossipIDs)
				}
				if preMesh[ppid] && score(p) < 0 {
					if postMesh[ppid] {
						res.violate("C09/negative-not-pruned", step, "peer %d (score %g) is still in the mesh after the heartbeat", p, score(p))
					}
					if prune != nil && len(prune.Peers) > 0 {
						res.violate("C09/px-to-negative-peer", step, "heartbeat PRUNE to peer %d (score %g) carries %d peer-exchange records", p, score(p), len(prune.Peers))
					}
					backedOff[p] = true
					res.label("negative-pruned-at-heartbeat")
				}
				if grafted && (score(p) < 0 || isDirect(p)) {
					res.violate("C09/negative-grafted", step, "heartbeat grafted peer %d (score %g, direct=%v)", p, score(p), isDirect(p))
				}
				if prune != nil {
					backedOff[p] = true
				}
			}
			for ppid := range fanout(t1) {
				p := n.byID[ppid]
				if score(p) < c.Publish {
					res.violate("C09/fanout-below-publish-threshold", step, "peer %d (score %g < publish %g) is in the fan-out after the heartbeat", p, score(p), c.Publish)
				}
			}
		case "px":
			if !c.Joined {
				continue
			}
			// P prunes us and offers a peer through peer exchange
			target := vfPeer(20 + op.K)
			info := &pb.PeerInfo{PeerID: []byte(target.ID)}
			valid := true
			switch op.N {
			case 0:
				info.SignedPeerRecord = c09SealRecord(target)
			case 1:
				info.SignedPeerRecord = c09SealRecord(vfPeer(25)) // a valid record, but of somebody else
				valid = false
			case 2:
				info.SignedPeerRecord = []byte("garbage-record")
				valid = false
			case 3:
				// no record at all: the ID alone
			case 4:
				other := (op.K % len(c.Peers)) + 1
				info = &pb.PeerInfo{PeerID: []byte(vfPeer(other).ID), SignedPeerRecord: c09SealRecord(vfPeer(other))}
				valid = false // already connected: nothing to follow
			}
			n.drainConnect()
			n.recv(op.P, vfPruneRPC(t0, 1, []*pb.PeerInfo{info}))
			backedOff[op.P] = true
			followed := len(n.drainConnect()) > 0
			n.drain()
			allowed := !gray && sc >= c.AcceptPX && valid
			if followed && !allowed {
				res.violate("C09/px-followed", step, "peer exchange from peer %d (score %g, accept-PX threshold %g, graylisted=%v, record kind %d) was followed", op.P, sc, c.AcceptPX, gray, op.N)
			}
			if !followed && allowed {
				res.violate("C09/px-not-followed", step, "valid peer exchange from peer %d (score %g >= accept-PX threshold %g) was not followed", op.P, sc, c.AcceptPX)
			}
			res.label(fmt.Sprintf("px-kind-%d", op.N))
		case "throttle":
			if !c.Gater {
				continue
			}
			// drive the gater through its tracer interface: a validation throttle event plus bad statistics for P
			tn := t0
			n.eval(func() {
				m := &Message{Message: &pb.Message{Topic: &tn, From: []byte("x"), Seqno: []byte("y")}, ReceivedFrom: pid}
				n.gs.gate.RejectMessage(m, RejectValidationThrottled)
				for k := 0; k < op.N; k++ {
					n.gs.gate.RejectMessage(m, RejectValidationFailed)
				}
			})
			throttling = true
			res.label("gater-driven")
		}
		if len(res.Viols) > 0 {
			return
		}
	}
	res.NT = nontrivial
}

func cachedAgeMin(age map[string]int, cached []string) int {
	m := 1 << 30
	for _, d := range cached {
		if age[d] < m {
			m = age[d]
		}
	}
	return m
}

func TestVfC09Thresholds(t *testing.T) {
	vfCheck(t, "C09", c09Gen, c09Run)
}
