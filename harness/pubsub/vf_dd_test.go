package pubsub

// Direct-drive layer (DESIGN §3 L1): one real PubSub + router on the stub host, driven synchronously
// from inside its own event loop; every outbound RPC is observed at the per-peer rpcQueue.

import (
	"context"
	"fmt"
	"runtime/debug"
	"sort"
	"strings"
	"sync"
	"testing"
	"testing/synctest"
	"time"

	pb "github.com/libp2p/go-libp2p-pubsub/pb"
	"github.com/libp2p/go-libp2p/core/peer"
	"github.com/libp2p/go-libp2p/core/protocol"
)

var vfProtos = []protocol.ID{FloodSubID, GossipSubID_v10, GossipSubID_v11, GossipSubID_v12, GossipSubID_v13, RandomSubID}

func vfProtoName(p protocol.ID) string { return string(p) }

func vfProto(i int) protocol.ID { return vfProtos[((i%len(vfProtos))+len(vfProtos))%len(vfProtos)] }

// vfIsMesh reports whether the protocol is a gossipsub (mesh-capable) version.
func vfIsMesh(p protocol.ID) bool {
	return p == GossipSubID_v10 || p == GossipSubID_v11 || p == GossipSubID_v12 || p == GossipSubID_v13
}

// ---------------------------------------------------------------------------------------------------
// raw tracer: records what the node says it did, with virtual timestamps

type vfRawEv struct {
	At     time.Duration
	Kind   string // open close join leave graft prune validate deliver reject duplicate throttle recv send drop undeliverable
	Peer   peer.ID
	Topic  string
	MsgID  string
	Reason string
	RPC    *RPC
}

type vfRaw struct {
	mu   sync.Mutex
	base time.Time
	evs  []vfRawEv
	idOf func(*Message) string
}

func (r *vfRaw) add(e vfRawEv) {
	r.mu.Lock()
	e.At = time.Since(r.base)
	r.evs = append(r.evs, e)
	r.mu.Unlock()
}
func (r *vfRaw) mid(m *Message) string {
	if r.idOf != nil {
		return r.idOf(m)
	}
	return ""
}
func (r *vfRaw) OnNewOutboundStream(p peer.ID, proto protocol.ID) {
	r.add(vfRawEv{Kind: "open", Peer: p, Topic: string(proto)})
}
func (r *vfRaw) OnClosedOutboundStream(p peer.ID) { r.add(vfRawEv{Kind: "close", Peer: p}) }
func (r *vfRaw) Join(topic string)                { r.add(vfRawEv{Kind: "join", Topic: topic}) }
func (r *vfRaw) Leave(topic string)               { r.add(vfRawEv{Kind: "leave", Topic: topic}) }
func (r *vfRaw) Graft(p peer.ID, topic string)    { r.add(vfRawEv{Kind: "graft", Peer: p, Topic: topic}) }
func (r *vfRaw) Prune(p peer.ID, topic string)    { r.add(vfRawEv{Kind: "prune", Peer: p, Topic: topic}) }
func (r *vfRaw) ValidateMessage(m *Message) {
	r.add(vfRawEv{Kind: "validate", Peer: m.ReceivedFrom, Topic: m.GetTopic(), MsgID: r.mid(m)})
}
func (r *vfRaw) DeliverMessage(m *Message) {
	r.add(vfRawEv{Kind: "deliver", Peer: m.ReceivedFrom, Topic: m.GetTopic(), MsgID: r.mid(m)})
}
func (r *vfRaw) RejectMessage(m *Message, reason string) {
	r.add(vfRawEv{Kind: "reject", Peer: m.ReceivedFrom, Topic: m.GetTopic(), MsgID: r.mid(m), Reason: reason})
}
func (r *vfRaw) DuplicateMessage(m *Message) {
	r.add(vfRawEv{Kind: "duplicate", Peer: m.ReceivedFrom, Topic: m.GetTopic(), MsgID: r.mid(m)})
}
func (r *vfRaw) ThrottlePeer(p peer.ID)     { r.add(vfRawEv{Kind: "throttle", Peer: p}) }
func (r *vfRaw) RecvRPC(rpc *RPC)            { r.add(vfRawEv{Kind: "recv", Peer: rpc.from, RPC: rpc}) }
func (r *vfRaw) SendRPC(rpc *RPC, p peer.ID) { r.add(vfRawEv{Kind: "send", Peer: p, RPC: rpc}) }
func (r *vfRaw) DropRPC(rpc *RPC, p peer.ID) {
	// the router strips gossip from a dropped RPC right after tracing it (pushControl): keep what was reported
	cp := &RPC{from: rpc.from}
	if b, err := rpc.Marshal(); err == nil {
		_ = cp.Unmarshal(b)
	}
	r.add(vfRawEv{Kind: "drop", Peer: p, RPC: cp})
}
func (r *vfRaw) UndeliverableMessage(m *Message) {
	r.add(vfRawEv{Kind: "undeliverable", Topic: m.GetTopic(), MsgID: r.mid(m)})
}

func (r *vfRaw) snapshot() []vfRawEv {
	r.mu.Lock()
	defer r.mu.Unlock()
	return append([]vfRawEv(nil), r.evs...)
}

// ---------------------------------------------------------------------------------------------------
// node

type vfSent struct {
	To  int // symbolic peer index
	At  time.Duration
	RPC *RPC
}

type vfFake struct {
	Idx   int
	ID    peer.ID
	Proto protocol.ID
	Up    bool // has an outbound queue at the node
}

type vfNode struct {
	t      *testing.T
	h      *vfHost
	ps     *PubSub
	gs     *GossipSubRouter
	ctx    context.Context
	cancel context.CancelFunc
	raw    *vfRaw
	base   time.Time
	fakes  map[int]*vfFake
	byID   map[peer.ID]int
	wire   []vfSent
}

type vfNodeCfg struct {
	Router          string // gossipsub | floodsub | randomsub
	Opts            []Option
	Params          *GossipSubParams // nil: defaults
	ManualHeartbeat bool
	Workers         int
	Connectors      int // > 0: run that many PX connectors (default: none, the harness reads the connect channel itself)
}

const vfNever = 1000 * time.Hour

func newVfNode(t *testing.T, cfg vfNodeCfg) (*vfNode, error) {
	return newVfNodeWith(t, cfg, nil)
}

// newVfNodeWith lets the caller prepare the stub host (e.g. its peerstore) before the constructor runs.
func newVfNodeWith(t *testing.T, cfg vfNodeCfg, prep func(*vfHost)) (*vfNode, error) {
	n := &vfNode{t: t, h: newVfHost(vfPeer(0)), fakes: map[int]*vfFake{}, byID: map[peer.ID]int{}, base: time.Now()}
	if prep != nil {
		prep(n.h)
	}
	n.raw = &vfRaw{base: n.base}
	n.ctx, n.cancel = context.WithCancel(context.Background())
	opts := []Option{WithRawTracer(n.raw)}
	w := cfg.Workers
	if w <= 0 {
		w = 2
	}
	opts = append(opts, WithValidateWorkers(w))
	var err error
	switch cfg.Router {
	case "floodsub":
		opts = append(opts, cfg.Opts...)
		n.ps, err = NewFloodSub(n.ctx, n.h, opts...)
	case "randomsub":
		opts = append(opts, cfg.Opts...)
		n.ps, err = NewRandomSub(n.ctx, n.h, 10, opts...)
	default:
		p := DefaultGossipSubParams()
		if cfg.Params != nil {
			p = *cfg.Params
		}
		if cfg.ManualHeartbeat {
			p.HeartbeatInitialDelay = vfNever
		}
		p.Connectors = cfg.Connectors // default 0: PX / direct connect requests stay on the connect channel where the harness reads them
		if p.MaxPendingConnections == 0 {
			p.MaxPendingConnections = 128
		}
		opts = append(opts, WithGossipSubParams(p))
		opts = append(opts, cfg.Opts...)
		n.ps, err = NewGossipSub(n.ctx, n.h, opts...)
		if err == nil {
			n.gs = n.ps.rt.(*GossipSubRouter)
		}
	}
	if err != nil {
		n.cancel()
		n.h.Close()
		return nil, err
	}
	n.raw.idOf = n.ps.idGen.ID
	return n, nil
}

// close tears the node down; the bubble must be able to drain afterwards.
func (n *vfNode) close() {
	n.cancel()
	synctest.Wait()
	// Some library goroutines have no context arm but end by themselves within a bounded (virtual) time, e.g. the
	// initial direct-peer connector sleeps DirectConnectInitialDelay and then hands its peers to the connect channel.
	// Give them that time, and keep the connect channel from filling up (the harness runs without PX connectors).
	for i := 0; i < 3; i++ {
		n.drainConnect()
		time.Sleep(2 * time.Second)
		synctest.Wait()
	}
	n.drainConnect()
	n.h.Close()
}

// drainConnect empties the router's PX / direct-peer connect channel and returns what was requested.
func (n *vfNode) drainConnect() []connectInfo {
	var out []connectInfo
	if n.gs == nil {
		return nil
	}
	for {
		select {
		case ci := <-n.gs.connect:
			out = append(out, ci)
		default:
			return out
		}
	}
}

func (n *vfNode) now() time.Duration { return time.Since(n.base) }

// eval runs f inside the node's event loop and waits for it, like the repo's own test helpers.
func (n *vfNode) eval(f func()) {
	done := make(chan struct{})
	n.ps.eval <- func() {
		defer close(done)
		f()
	}
	<-done
}

// evalRecover is eval for code that may panic (hostile input): the panic is returned, the loop survives.
func (n *vfNode) evalRecover(f func()) (pan any) {
	done := make(chan struct{})
	n.ps.eval <- func() {
		defer close(done)
		defer func() {
			if r := recover(); r != nil {
				pan = fmt.Sprintf("%v\n%s", r, vfLibFrames(string(debug.Stack())))
			}
		}()
		f()
	}
	<-done
	return
}

func (n *vfNode) fake(idx int) *vfFake {
	f, ok := n.fakes[idx]
	if !ok {
		f = &vfFake{Idx: idx, ID: vfPeer(idx).ID}
		n.fakes[idx] = f
		n.byID[f.ID] = idx
	}
	return f
}

// addPeer makes a remote peer appear with an established outbound stream, as the event loop does when
// handleNewPeer hands it a stream: blacklist check, hello packet, router notification.
// Returns the hello packet the peer would receive (nil if the node refused the peer).
func (n *vfNode) addPeer(idx int, proto protocol.ID, queue int, conns []vfConnSpec) *RPC {
	f := n.fake(idx)
	var hello *RPC
	n.eval(func() {
		if _, ok := n.ps.peers[f.ID]; ok {
			return
		}
		if len(conns) == 0 {
			conns = []vfConnSpec{{Out: true, IP: fmt.Sprintf("10.1.%d.%d", idx/250, idx%250+1), Stream: true}}
		}
		n.h.net.connect(f.ID, proto, conns)
		if n.ps.blacklist.Contains(f.ID) {
			return // handlePendingPeers / newPeerStream refuse blacklisted peers
		}
		if queue <= 0 {
			queue = n.ps.peerOutboundQueueSize
		}
		n.ps.peers[f.ID] = newRpcQueue(queue)
		hello = n.ps.rt.OnNewOutboundStream(f.ID, proto, n.ps.getHelloPacket())
		f.Proto, f.Up = proto, true
	})
	if hello != nil {
		n.wire = append(n.wire, vfSent{To: idx, At: n.now(), RPC: hello})
	}
	return hello
}

// killPeer: the outbound stream died. gone=true also removes the connection (whole-peer disconnect).
func (n *vfNode) killPeer(idx int, gone bool) {
	f := n.fake(idx)
	n.eval(func() {
		if gone {
			n.h.net.setConns(f.ID, nil)
		}
		n.ps.peerDeadPrioLk.Lock()
		n.ps.peerDeadPend[f.ID] = struct{}{}
		n.ps.peerDeadPrioLk.Unlock()
		n.ps.handleDeadPeers()
		f.Up = false
	})
}

func (n *vfNode) openInbound(idx int, proto protocol.ID) {
	f := n.fake(idx)
	n.eval(func() { n.ps.rt.OnNewIncomingStream(f.ID, proto) })
}

func (n *vfNode) closeInbound(idx int, proto protocol.ID) {
	f := n.fake(idx)
	n.eval(func() { n.ps.onClosedIncomingStream(f.ID, proto) })
}

// recv delivers an RPC from the peer, exactly as the stream reader hands it to the event loop.
func (n *vfNode) recv(idx int, rpc *RPC) {
	f := n.fake(idx)
	rpc.from = f.ID
	n.eval(func() { n.ps.handleIncomingRPC(rpc) })
}

func (n *vfNode) recvRecover(idx int, rpc *RPC) any {
	f := n.fake(idx)
	rpc.from = f.ID
	return n.evalRecover(func() { n.ps.handleIncomingRPC(rpc) })
}

// drain pops everything the node queued for its peers: this is what would go on the wire.
func (n *vfNode) drain() []vfSent {
	var out []vfSent
	n.eval(func() {
		idxs := make([]int, 0, len(n.fakes))
		for i := range n.fakes {
			idxs = append(idxs, i)
		}
		sort.Ints(idxs)
		for _, i := range idxs {
			f := n.fakes[i]
			q, ok := n.ps.peers[f.ID]
			if !ok {
				continue
			}
			out = append(out, n.drainQueue(i, q)...)
		}
	})
	n.wire = append(n.wire, out...)
	return out
}

func (n *vfNode) drainQueue(idx int, q *rpcQueue) []vfSent {
	var out []vfSent
	for {
		q.queueMu.Lock()
		l := q.queue.Len()
		closed := q.closed
		q.queueMu.Unlock()
		if l == 0 || closed {
			return out
		}
		rpc, err := q.Pop(context.Background())
		if err != nil {
			return out
		}
		out = append(out, vfSent{To: idx, At: n.now(), RPC: rpc})
	}
}

// drainPeer pops only one peer's queue (the others stay undrained: full-queue scenarios).
func (n *vfNode) drainPeer(idx int) []vfSent {
	var out []vfSent
	n.eval(func() {
		if q, ok := n.ps.peers[n.fake(idx).ID]; ok {
			out = n.drainQueue(idx, q)
		}
	})
	n.wire = append(n.wire, out...)
	return out
}

func (n *vfNode) heartbeat() {
	n.eval(func() { n.gs.heartbeat() })
}

// settle lets asynchronous parts (validation workers, async validators, retries) run to quiescence.
func (n *vfNode) settle() { synctest.Wait() }

// ---------------------------------------------------------------------------------------------------
// RPC builders used by the interpreters

func vfSubRPC(topic string, sub bool) *RPC {
	return &RPC{RPC: pb.RPC{Subscriptions: []*pb.RPC_SubOpts{{Topicid: &topic, Subscribe: &sub}}}}
}

func vfGraftRPC(topics ...string) *RPC {
	ctl := &pb.ControlMessage{}
	for _, t := range topics {
		t := t
		ctl.Graft = append(ctl.Graft, &pb.ControlGraft{TopicID: &t})
	}
	return &RPC{RPC: pb.RPC{Control: ctl}}
}

func vfPruneRPC(topic string, backoff int, px []*pb.PeerInfo) *RPC {
	pr := &pb.ControlPrune{TopicID: &topic, Peers: px}
	if backoff >= 0 {
		b := uint64(backoff)
		pr.Backoff = &b
	}
	return &RPC{RPC: pb.RPC{Control: &pb.ControlMessage{Prune: []*pb.ControlPrune{pr}}}}
}

// vfSignedMsg builds a message of author a, honestly signed.
func vfSignedMsg(author *vfIdent, topic string, seq uint64, data []byte) *pb.Message {
	var sq [8]byte
	for i := 0; i < 8; i++ {
		sq[7-i] = byte(seq >> (8 * i))
	}
	m := &pb.Message{From: []byte(author.ID), Data: data, Seqno: sq[:], Topic: &topic}
	if err := signMessage(author.ID, author.Priv, m); err != nil {
		panic(err)
	}
	return m
}

func vfMsgRPC(msgs ...*pb.Message) *RPC { return &RPC{RPC: pb.RPC{Publish: msgs}} }

// vfTopic names the i-th symbolic topic.
func vfTopic(i int) string { return fmt.Sprintf("topic-%d", i) }

// vfLibFrames keeps the library frames of a stack (file:line of non-harness code), enough to name the call site.
func vfLibFrames(stack string) string {
	var out []string
	lines := strings.Split(stack, "\n")
	for i := 0; i+1 < len(lines); i++ {
		if strings.Contains(lines[i], "go-libp2p-pubsub") && !strings.Contains(lines[i+1], "/vf_") && strings.HasPrefix(lines[i+1], "\t") {
			fn := lines[i]
			if j := strings.LastIndex(fn, "/"); j >= 0 {
				fn = fn[j+1:]
			}
			loc := strings.TrimSpace(lines[i+1])
			if j := strings.Index(loc, " +0x"); j >= 0 {
				loc = loc[:j]
			}
			out = append(out, fn+" @ "+loc)
			if len(out) >= 6 {
				break
			}
		}
	}
	return strings.Join(out, "\n")
}
