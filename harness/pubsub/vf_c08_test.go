package pubsub

// C08 — prune back-off is honoured in both directions (DESIGN §5 C08).
// The reference model keeps noGraftBefore[topic, peer] as a max-merge map fed only by the events the statement
// names, timed by the virtual clock; it never reads the router's own back-off table.

import (
	"fmt"
	"sort"
	"testing"
	"time"

	"github.com/libp2p/go-libp2p/core/peer"
	"pgregory.net/rapid"
)

type c08Op struct {
	Op    string `json:"op"`
	P     int    `json:"p,omitempty"`
	T     int    `json:"t,omitempty"`
	N     int    `json:"n,omitempty"`
	Ms    int    `json:"ms,omitempty"`
	Proto int    `json:"proto,omitempty"`
}

type c08Case struct {
	D, Dlo, Dhi   int
	PruneS, UnsubS int
	FloodMs       int
	Queue         int  `json:"queue"`
	AutoDrain     bool `json:"autodrain"`
	Peers         int  `json:"peers"`
	Topics        int  `json:"topics"`
	Ops           []c08Op `json:"ops"`
	// Opp: opportunistic grafting is live: the peers with an odd index have application score 2, the threshold is 1 and
	// the check runs every second heartbeat (the median of a mesh of zero-score peers is below the threshold)
	Opp bool `json:"opportunistic,omitempty"`
	// Over: the history starts with a join followed by a GRAFT from every peer (all connections are outbound, so the mesh
	// grows past Dhi with no back-off recorded yet) and a heartbeat: the first back-off ever recorded for the topic is
	// recorded by the heartbeat that also looks for graft candidates
	Over bool `json:"over,omitempty"`
}

func c08Gen(rt *rapid.T) c08Case {
	var c c08Case
	c.Opp = rapid.IntRange(0, 2).Draw(rt, "opp") == 0
	c.Over = rapid.IntRange(0, 3).Draw(rt, "over") == 0
	if c.Over && rapid.Bool().Draw(rt, "overOpp") {
		c.Opp = true
	}
	c.D = rapid.IntRange(2, 4).Draw(rt, "D")
	c.Dlo = rapid.IntRange(1, c.D).Draw(rt, "Dlo")
	c.Dhi = rapid.IntRange(c.D, c.D+3).Draw(rt, "Dhi")
	c.PruneS = rapid.SampledFrom([]int{5, 20, 60}).Draw(rt, "prune")
	c.UnsubS = rapid.SampledFrom([]int{2, 10}).Draw(rt, "unsub")
	c.FloodMs = rapid.SampledFrom([]int{500, 2000, 10000}).Draw(rt, "flood")
	c.AutoDrain = rapid.IntRange(0, 2).Draw(rt, "autodrain") > 0
	c.Queue = 32
	if !c.AutoDrain {
		c.Queue = rapid.IntRange(1, 3).Draw(rt, "queue")
	}
	c.Peers = rapid.IntRange(1, 8).Draw(rt, "peers")
	if c.Over {
		c.Peers = rapid.IntRange(min(c.Dhi+1, 8), 8).Draw(rt, "peersOver")
	}
	c.Topics = rapid.IntRange(1, 2).Draw(rt, "topics")
	// populate, join
	for p := 1; p <= c.Peers; p++ {
		c.Ops = append(c.Ops, c08Op{Op: "arrive+sub", P: p, T: 0, Proto: rapid.SampledFrom([]int{2, 2, 2, 1, 3, 4}).Draw(rt, "proto")})
		if c.Topics > 1 && rapid.Bool().Draw(rt, "sub1") {
			c.Ops = append(c.Ops, c08Op{Op: "sub", P: p, T: 1})
		}
	}
	if c.Over {
		for i := rapid.IntRange(0, 1).Draw(rt, "hbBefore"); i > 0; i-- {
			c.Ops = append(c.Ops, c08Op{Op: "hb", P: 1, N: 1})
		}
		c.Ops = append(c.Ops, c08Op{Op: "join", P: 1, T: 0})
		for p := 1; p <= c.Peers; p++ {
			c.Ops = append(c.Ops, c08Op{Op: "graft", P: p, T: 0})
		}
		c.Ops = append(c.Ops, c08Op{Op: "hb", P: 1, N: rapid.IntRange(1, 2).Draw(rt, "hbAfter")})
	}
	n := rapid.IntRange(4, 50).Draw(rt, "nops")
	kinds := []string{"join", "leave", "hb", "hb", "hb", "hb", "graft", "graft", "graft", "prune", "prune", "advto", "advto", "advto", "adv", "depart", "return", "drain", "drain", "fanoutpub"}
	for i := 0; i < n; i++ {
		op := c08Op{Op: rapid.SampledFrom(kinds).Draw(rt, "op"), P: rapid.IntRange(1, c.Peers).Draw(rt, "p"), T: rapid.IntRange(0, c.Topics-1).Draw(rt, "t")}
		switch op.Op {
		case "hb":
			op.N = rapid.SampledFrom([]int{1, 1, 1, 2, 3, 14, 15, 16}).Draw(rt, "times")
			op.Ms = rapid.SampledFrom([]int{0, 100, 1000}).Draw(rt, "gap")
		case "prune":
			op.N = rapid.SampledFrom([]int{-1, 0, 1, 3, 30, 120, 300}).Draw(rt, "backoff")
		case "advto":
			op.N = rapid.IntRange(0, 3).Draw(rt, "k")
			op.Ms = rapid.SampledFrom([]int{-2500, -1500, -1000, -1, 0, 1, 1000, 1900, 2100, 3000}).Draw(rt, "delta")
		case "adv":
			op.Ms = rapid.OneOf(rapid.IntRange(0, 2000), rapid.IntRange(0, 70000)).Draw(rt, "ms")
		case "return":
			op.Proto = rapid.SampledFrom([]int{2, 2, 1, 3}).Draw(rt, "proto")
		}
		c.Ops = append(c.Ops, op)
	}
	return c
}

type c08Key struct {
	topic string
	p     peer.ID
}

func c08Run(t *testing.T, c c08Case) (res vfResult) {
	msg := vfBubble(t, func() { c08RunInBubble(t, c, &res) })
	if msg != "" {
		res.violate("C08/panic", -1, "%s", msg)
	}
	return
}

func c08RunInBubble(t *testing.T, c c08Case, res *vfResult) {
	gp := DefaultGossipSubParams()
	gp.D, gp.Dlo, gp.Dhi, gp.Dscore, gp.Dout = c.D, c.Dlo, c.Dhi, 0, 0
	gp.PruneBackoff, gp.UnsubscribeBackoff = time.Duration(c.PruneS)*time.Second, time.Duration(c.UnsubS)*time.Second
	gp.GraftFloodThreshold = time.Duration(c.FloodMs) * time.Millisecond
	gp.OpportunisticGraftPeers = 0
	if c.Opp {
		gp.OpportunisticGraftPeers, gp.OpportunisticGraftTicks = 2, 2
	}
	if err := gp.validate(); err != nil {
		res.Inconclusive = "generated parameters refused: " + err.Error()
		return
	}
	// scoring on with every weight zero: behaviour penalties are counted but change no score
	app := func(peer.ID) float64 { return 0 }
	thr := &PeerScoreThresholds{AcceptPXThreshold: 1000}
	weight := 0.0
	if c.Opp {
		odd := map[peer.ID]bool{}
		for i := 1; i <= c.Peers; i += 2 {
			odd[vfPeer(i).ID] = true
		}
		app = func(p peer.ID) float64 {
			if odd[p] {
				return 2
			}
			return 0
		}
		thr.OpportunisticGraftThreshold = 1
		weight = 1
		res.label("opportunistic-grafting-live")
	}
	score := WithPeerScore(&PeerScoreParams{AppSpecificScore: app, AppSpecificWeight: weight, DecayInterval: time.Hour, DecayToZero: 0.01,
		BehaviourPenaltyDecay: 0.999, Topics: map[string]*TopicScoreParams{}}, thr)
	n, err := newVfNode(t, vfNodeCfg{Router: "gossipsub", Params: &gp, ManualHeartbeat: true, Opts: []Option{score, WithPeerOutboundQueueSize(c.Queue)}})
	if err != nil {
		res.Inconclusive = "constructor refused: " + err.Error()
		return
	}
	defer n.close()

	pruneB, unsubB := gp.PruneBackoff, gp.UnsubscribeBackoff
	noGraftBefore := map[c08Key]time.Time{}
	setAt := map[c08Key]time.Time{}         // when the running deadline was set
	runInterval := map[c08Key]time.Duration{} // the interval it was set with
	lastPrune := map[c08Key]time.Time{}     // latest PRUNE event for (topic, peer), in either direction
	leftWith := map[c08Key]bool{}           // peer was a member of a mesh we left (its PRUNE may state the unsubscribe value)
	merge := func(k c08Key, interval time.Duration) {
		now := time.Now()
		lastPrune[k] = now
		if d := now.Add(interval); d.After(noGraftBefore[k]) {
			noGraftBefore[k] = d
			setAt[k] = now
			runInterval[k] = interval
		}
	}
	penalty := func(p peer.ID) float64 {
		var v float64
		n.eval(func() {
			n.gs.score.Lock()
			if st, ok := n.gs.score.peerStats[p]; ok {
				v = st.behaviourPenalty
			}
			n.gs.score.Unlock()
		})
		return v
	}
	type state struct {
		mesh    map[string]map[peer.ID]bool
		joined  map[string]bool
		conn    map[peer.ID]bool
		direct  map[peer.ID]bool
		qlen    map[peer.ID]int
	}
	snap := func() *state {
		s := &state{mesh: map[string]map[peer.ID]bool{}, joined: map[string]bool{}, conn: map[peer.ID]bool{}, direct: map[peer.ID]bool{}, qlen: map[peer.ID]int{}}
		n.eval(func() {
			for tn, m := range n.gs.mesh {
				s.mesh[tn] = copySet(m)
				s.joined[tn] = true
			}
			for p := range n.gs.peers {
				s.conn[p] = true
			}
			for p, q := range n.ps.peers {
				q.queueMu.Lock()
				s.qlen[p] = q.queue.Len()
				q.queueMu.Unlock()
			}
		})
		return s
	}
	rawSeen := 0
	nearDeadline, dropped := false, false
	// What goes onto the wire is judged at the moment the node hands it to the peer's outbound queue (the SEND_RPC
	// trace event carries that instant and the RPC); how long it then sits in a queue nobody drains is not the
	// node's doing. C19 checks separately that SEND_RPC events match the queue contents.
	var sendsNow []vfSent // sends absorbed by the latest absorb() call
	judgeSend := func(step int, at time.Duration, to int, rpc *RPC, leaveTopic string) {
		ctl := rpc.GetControl()
		if ctl == nil {
			return
		}
		now := n.base.Add(at)
		p := vfPeer(to).ID
		f := n.fakes[to]
		for _, g := range ctl.GetGraft() {
			k := c08Key{g.GetTopicID(), p}
			if d, ok := noGraftBefore[k]; ok && now.Before(d) {
				res.violate("C08/early-graft", step, "GRAFT for %s sent to peer %d at %v, %v before its back-off expires (set %v before)", k.topic, to, at, d.Sub(now), now.Sub(setAt[k]))
			}
			if d, ok := noGraftBefore[k]; ok && now.Sub(d) < 3*time.Second {
				nearDeadline = true
			}
		}
		for _, pr := range ctl.GetPrune() {
			k := c08Key{pr.GetTopicID(), p}
			v11 := f != nil && f.Proto != GossipSubID_v10 && vfIsMesh(f.Proto)
			if !v11 {
				continue
			}
			if pr.Backoff == nil {
				res.violate("C08/prune-without-backoff", step, "PRUNE for %s to v1.1+ peer %d states no back-off", k.topic, to)
				continue
			}
			b := time.Duration(pr.GetBackoff()) * time.Second
			okPrune := b == pruneB
			okUnsub := b == unsubB && leftWith[k]
			if c.AutoDrain && leaveTopic == k.topic && leftWith[k] {
				// nothing is pending with drained queues: this PRUNE is the one the leave produced
				okPrune = pruneB == unsubB
			}
			if !okPrune && !okUnsub {
				res.violate("C08/prune-wrong-backoff", step, "PRUNE for %s to peer %d states back-off %v (prune %v, unsubscribe %v, leaving=%v)", k.topic, to, b, pruneB, unsubB, leaveTopic == k.topic)
			}
		}
	}
	absorb := func(step int, leaveTopic string) {
		evs := n.raw.snapshot()
		sendsNow = sendsNow[:0]
		for _, e := range evs[rawSeen:] {
			switch e.Kind {
			case "drop":
				dropped = true
			case "send":
				to := n.byID[e.Peer]
				sendsNow = append(sendsNow, vfSent{To: to, At: e.At, RPC: e.RPC})
				judgeSend(step, e.At, to, e.RPC, leaveTopic)
			}
		}
		rawSeen = len(evs)
	}
	pump := func(step int, leaveTopic string) {
		absorb(step, leaveTopic)
		if c.AutoDrain {
			n.drain()
		}
	}

	topics := map[int]*Topic{}
	subs := map[int][]*Subscription{}
	handle := func(ti int) *Topic {
		if h, ok := topics[ti]; ok {
			return h
		}
		h, err := n.ps.Join(vfTopic(ti))
		if err != nil {
			panic(err)
		}
		topics[ti] = h
		return h
	}

	for step, op := range c.Ops {
		topic := vfTopic(op.T)
		pid := vfPeer(op.P).ID
		switch op.Op {
		case "arrive+sub":
			n.addPeer(op.P, vfProto(op.Proto), c.Queue, nil)
			n.recv(op.P, vfSubRPC(topic, true))
		case "sub":
			n.recv(op.P, vfSubRPC(topic, true))
		case "return":
			if f := n.fakes[op.P]; f != nil && !f.Up {
				n.addPeer(op.P, vfProto(op.Proto), c.Queue, nil)
				for ti := 0; ti < c.Topics; ti++ {
					n.recv(op.P, vfSubRPC(vfTopic(ti), true))
				}
				res.label("peer-returned")
			}
		case "depart":
			n.killPeer(op.P, true)
		case "adv":
			time.Sleep(time.Duration(op.Ms) * time.Millisecond)
		case "advto":
			var ds []time.Time
			now := time.Now()
			for _, d := range noGraftBefore {
				if d.Add(3 * time.Second).After(now) {
					ds = append(ds, d)
				}
			}
			if len(ds) == 0 {
				continue
			}
			sort.Slice(ds, func(i, j int) bool { return ds[i].Before(ds[j]) })
			target := ds[op.N%len(ds)].Add(time.Duration(op.Ms) * time.Millisecond)
			if target.After(now) {
				time.Sleep(target.Sub(now))
			}
		case "drain":
			absorb(step, "")
			n.drainPeer(op.P)
		case "join":
			if len(subs[op.T]) > 0 {
				continue
			}
			s, err := handle(op.T).Subscribe()
			if err != nil {
				panic(err)
			}
			subs[op.T] = append(subs[op.T], s)
			nearDeadline = nearDeadline || len(noGraftBefore) > 0
			pump(step, "")
		case "fanoutpub":
			// publishing while not subscribed builds a fanout set; a later join promotes its members into the mesh
			if len(subs[op.T]) == 0 {
				_ = handle(op.T).Publish(n.ctx, []byte(fmt.Sprintf("fan-%d", step)))
				n.settle()
				res.label("fanout-publish")
				pump(step, topic)
			}
		case "leave":
			if len(subs[op.T]) == 0 {
				continue
			}
			pre := snap()
			subs[op.T][0].Cancel()
			subs[op.T] = nil
			n.eval(func() {}) // the cancel has been handled
			for p := range pre.mesh[topic] {
				k := c08Key{topic, p}
				merge(k, unsubB)
				leftWith[k] = true
			}
			res.label("leave")
			pump(step, topic)
		case "graft":
			pre := snap()
			if !pre.conn[pid] {
				continue
			}
			k := c08Key{topic, pid}
			now := time.Now()
			d, under := noGraftBefore[k]
			under = under && now.Before(d)
			penBefore := penalty(pid)
			n.recv(op.P, vfGraftRPC(topic))
			post := snap()
			absorb(step, "")
			sent := append([]vfSent(nil), sendsNow...)
			if c.AutoDrain {
				n.drain()
			}
			if !pre.joined[topic] || pre.mesh[topic][pid] {
				continue // unknown topic: ignored; already a member: nothing to refuse
			}
			if under {
				nearDeadline = true
				res.label("graft-under-backoff")
				if post.mesh[topic][pid] {
					res.violate("C08/backoff-graft-admitted", step, "GRAFT for %s from peer %d admitted %v before its back-off expires", topic, op.P, d.Sub(now))
				}
				if c.AutoDrain && !c07HasCtl(sent, op.P, topic, false) {
					res.violate("C08/backoff-graft-no-prune", step, "GRAFT for %s from backed-off peer %d was not answered with a PRUNE", topic, op.P)
				}
				got := penalty(pid) - penBefore
				inFlood := now.Sub(lastPrune[k]) < gp.GraftFloodThreshold
				want := 1.0
				if inFlood {
					want = 2
				}
				skew := runInterval[k] != pruneB || !setAt[k].Equal(lastPrune[k])
				switch {
				case got == want:
				case skew && (got == 1 || got == 2):
					// The router derives the start of the flood window as "expiry minus PruneBackoff". That is the time of
					// the last PRUNE only if the running interval is the prune back-off and was set by that PRUNE; after a
					// leave (unsubscribe back-off), a peer-named interval, or a PRUNE that did not extend a longer running
					// back-off the window is misplaced. One root cause, classified separately (known finding).
					res.violate("C08/backoff-graft-penalty:interval-assumption", step, "GRAFT from peer %d %v after the last PRUNE (flood threshold %v; running back-off interval %v set %v ago, prune back-off %v) raised its penalty by %g, expected %g",
						op.P, now.Sub(lastPrune[k]), gp.GraftFloodThreshold, runInterval[k], now.Sub(setAt[k]), pruneB, got, want)
				default:
					res.violate("C08/backoff-graft-penalty", step, "GRAFT from backed-off peer %d, %v after the last PRUNE (flood threshold %v), raised its behaviour penalty by %g, expected %g", op.P, now.Sub(lastPrune[k]), gp.GraftFloodThreshold, got, want)
				}
				// the back-off is extended: at least a full prune back-off from now
				merge(k, pruneB)
			} else if !post.mesh[topic][pid] {
				// refused for another reason (mesh full for an inbound peer, ...): we pruned it, the back-off starts now
				merge(k, pruneB)
				res.label("graft-refused-other")
			}
		case "prune":
			pre := snap()
			if !pre.conn[pid] {
				continue
			}
			n.recv(op.P, vfPruneRPC(topic, op.N, nil))
			if pre.joined[topic] {
				k := c08Key{topic, pid}
				if op.N > 0 {
					merge(k, time.Duration(op.N)*time.Second)
				} else {
					merge(k, pruneB)
				}
				res.label("pruned-by-peer")
			}
			pump(step, "")
		case "hb":
			for i := 0; i < op.N; i++ {
				pre := snap()
				now := time.Now()
				mark := len(n.raw.snapshot())
				n.heartbeat()
				// members the heartbeat removed while they stay connected were pruned by us now
				post := snap()
				// (also one that the same heartbeat took back: the mesh looks unchanged, the PRUNE trace event tells)
				for _, e := range n.raw.snapshot()[mark:] {
					if e.Kind == "prune" && pre.mesh[e.Topic][e.Peer] && post.conn[e.Peer] {
						merge(c08Key{e.Topic, e.Peer}, pruneB)
						if post.mesh[e.Topic][e.Peer] {
							res.label("pruned-and-regrafted-in-one-heartbeat")
						}
					}
				}
				for tn, m := range pre.mesh {
					for p := range m {
						if !post.mesh[tn][p] && post.conn[p] {
							merge(c08Key{tn, p}, pruneB)
						}
					}
				}
				for k, d := range noGraftBefore {
					if pre.joined[k.topic] && now.Sub(d) > -2*time.Second && now.Sub(d) < 3*time.Second && len(pre.mesh[k.topic]) < c.Dlo {
						nearDeadline = true
					}
				}
				pump(step, "")
				if len(res.Viols) > 0 {
					return
				}
				if op.Ms > 0 {
					time.Sleep(time.Duration(op.Ms) * time.Millisecond)
				}
			}
		}
		if len(res.Viols) > 0 {
			return
		}
	}
	absorb(len(c.Ops), "")
	res.NT = nearDeadline || dropped
	if nearDeadline {
		res.label("opportunity-near-deadline")
	}
	if dropped {
		res.label("control-dropped-and-retried")
	}
	res.label(fmt.Sprintf("autodrain:%v", c.AutoDrain))
	if c.Over {
		res.label("over-Dhi-before-any-backoff")
	}
}

func TestVfC08Backoff(t *testing.T) {
	vfCheck(t, "C08", c08Gen, c08Run)
}
