package pubsub

// C03 — only authentic messages are accepted under the configured signature policy (DESIGN §5 C03).
// Honestly signed messages are tampered with and recombined; an independent re-implementation of the
// signature rule plus the policy's presence rules says accept or reject, and the node has to agree in both
// directions (delivered and forwarded unchanged / never delivered, never queued for anybody).

import (
	"context"
	"sync"
	"fmt"
	"testing"

	pb "github.com/libp2p/go-libp2p-pubsub/pb"
	"github.com/libp2p/go-libp2p/core/crypto"
	"github.com/libp2p/go-libp2p/core/peer"
	"pgregory.net/rapid"
)

type c03Msg struct {
	Author  int   `json:"author"`  // 0,1: ed25519 identities, 2: ecdsa identity (key must be attached)
	Sender  int   `json:"sender"`  // forwarding peer 1..3
	Topic   int   `json:"topic"`
	Tampers []int `json:"tampers,omitempty"`
	Local   int   `json:"local,omitempty"` // >0: a local publish instead (1 default key, 2 per-publish ed25519 key, 3 per-publish ecdsa key)
	Over    bool  `json:"over,omitempty"`  // the message arrives while the validation pipeline is full (overload cases only)
}

type c03Case struct {
	Policy int      `json:"policy"` // 0 StrictSign 1 StrictNoSign 2 LaxSign 3 LaxNoSign
	Author int      `json:"author_mode"` // 0 default, 1 custom author (another identity whose key is in the peerstore), 2 no author
	Msgs   []c03Msg `json:"msgs"`
	// Overload: validation queue of one, one worker and a validator the harness can hold, so that a message can be made
	// to arrive while the pipeline is full (such a message is dropped; it must never be let through unverified)
	Overload bool `json:"overload,omitempty"`
}

const c03NTampers = 20

func c03Gen(rt *rapid.T) c03Case {
	c := c03Case{Policy: rapid.IntRange(0, 3).Draw(rt, "policy"), Author: rapid.SampledFrom([]int{0, 0, 0, 1, 2}).Draw(rt, "authorMode")}
	c.Overload = rapid.IntRange(0, 4).Draw(rt, "overload") == 0
	n := rapid.IntRange(1, 12).Draw(rt, "nmsgs")
	for i := 0; i < n; i++ {
		m := c03Msg{Author: rapid.IntRange(0, 2).Draw(rt, "author"), Sender: rapid.IntRange(1, 3).Draw(rt, "sender"), Topic: rapid.IntRange(0, 1).Draw(rt, "topic")}
		if rapid.IntRange(0, 5).Draw(rt, "local") == 0 {
			m.Local = rapid.IntRange(1, 3).Draw(rt, "localKind")
		} else {
			for k := 0; k < rapid.SampledFrom([]int{0, 1, 1, 1, 2, 3}).Draw(rt, "ntampers"); k++ {
				m.Tampers = append(m.Tampers, rapid.IntRange(0, c03NTampers-1).Draw(rt, "tamper"))
			}
		}
		if c.Overload && m.Local == 0 {
			m.Over = rapid.Bool().Draw(rt, "over")
		}
		c.Msgs = append(c.Msgs, m)
	}
	return c
}

var c03Policies = []MessageSignaturePolicy{StrictSign, StrictNoSign, LaxSign, LaxNoSign}
var c03PolicyNames = []string{"StrictSign", "StrictNoSign", "LaxSign", "LaxNoSign"}

func c03Author(i int) *vfIdent {
	_, ec := vfIdents()
	switch i {
	case 0:
		return vfPeer(36)
	case 1:
		return vfPeer(37)
	}
	return ec[0]
}

// c03Accept is the oracle: would a correct receiver with this policy accept the message from a remote peer?
func c03Accept(policy MessageSignaturePolicy, anonymous bool, self peer.ID, m *pb.Message) (bool, string) {
	if self != "" && peer.ID(m.From) == self {
		return false, "names the local node as author"
	}
	present := m.Signature != nil
	verify := policy&msgVerification != 0
	sign := policy&msgSigning != 0
	if verify && sign && !present {
		return false, "strict signing: no signature"
	}
	if verify && !sign {
		if present {
			return false, "strict no-signing: carries a signature"
		}
		if anonymous && (m.From != nil || m.Seqno != nil || m.Key != nil) {
			return false, "anonymous mode: carries author, sequence number or key"
		}
	}
	if present {
		if err := c06Verify(m); err != nil {
			return false, "signature: " + err.Error()
		}
	}
	return true, ""
}

func c03Run(t *testing.T, c c03Case) (res vfResult) {
	msg := vfBubble(t, func() { c03RunInBubble(t, c, &res) })
	if msg != "" {
		res.violate("C03/panic", -1, "%s", msg)
	}
	return
}

func c03RunInBubble(t *testing.T, c c03Case, res *vfResult) {
	policy := c03Policies[c.Policy]
	custom := vfPeer(38)
	opts := []Option{WithMessageSignaturePolicy(policy)}
	var holdMu sync.Mutex
	var hold chan struct{}
	workers := 0
	if c.Overload {
		workers = 1
		opts = append(opts, WithValidateQueueSize(1), WithDefaultValidator(func(ctx context.Context, p peer.ID, m *Message) bool {
			holdMu.Lock()
			h := hold
			holdMu.Unlock()
			if h != nil {
				select {
				case <-h:
				case <-ctx.Done():
				}
			}
			return true
		}, WithValidatorInline(true))) // inline: the validation worker itself waits, so the queue behind it fills up
		res.label("overload-configuration")
	}
	idOf := DefaultMsgIdFn
	switch c.Author {
	case 1:
		opts = append(opts, WithMessageAuthor(custom.ID))
	case 2:
		// anonymous messages have no author and sequence number: a content-based message ID, as the documentation asks for
		idOf = func(m *pb.Message) string { return "d:" + string(m.Data) + "/" + m.GetTopic() }
		opts = append(opts, WithNoAuthor(), WithMessageIdFn(idOf))
	}
	n := &vfNode{}
	{
		// the custom author's key has to be in the peerstore before the constructor looks for it
		nn, err := newVfNodeWith(t, vfNodeCfg{Router: "floodsub", Opts: opts, Workers: workers}, func(h *vfHost) {
			_ = h.pstore.AddPrivKey(custom.ID, custom.Priv)
			_ = h.pstore.AddPubKey(custom.ID, custom.Pub)
		})
		if err != nil {
			res.label("constructor-refused")
			res.Inconclusive = ""
			return // a refused combination is recorded, not a failure
		}
		n = nn
	}
	defer n.close()
	effective := n.ps.signPolicy
	anonymous := n.ps.signID == ""
	self := n.h.id
	res.label("policy:" + c03PolicyNames[c.Policy])

	topics := []string{vfTopic(0), vfTopic(1)}
	var ths []*Topic
	var subs []*Subscription
	for _, tn := range topics {
		th, _ := n.ps.Join(tn)
		s, _ := th.Subscribe(WithBufferSize(256))
		ths, subs = append(ths, th), append(subs, s)
	}
	for p := 1; p <= 4; p++ {
		n.addPeer(p, FloodSubID, 0, nil)
		for _, tn := range topics {
			n.recv(p, vfSubRPC(tn, true))
		}
	}
	n.drain()
	seenIDs := map[string]bool{}
	var history []*pb.Message // honest messages built so far (sources for recombination)
	seq := uint64(100)
	fillSeq := uint64(0)
	nontrivial := false
	_, ec := vfIdents()

	for mi, m := range c.Msgs {
		if m.Local > 0 {
			// outbound: whatever the node publishes must be acceptable to a correct receiver with the same policy
			var po []PubOpt
			switch m.Local {
			case 2:
				po = append(po, WithSecretKeyAndPeerId(vfPeer(39).Priv, vfPeer(39).ID))
			case 3:
				po = append(po, WithSecretKeyAndPeerId(ec[1].Priv, ec[1].ID))
			}
			data := fmt.Sprintf("local-%d", mi)
			err := ths[m.Topic].Publish(n.ctx, []byte(data), po...)
			n.settle()
			sent := n.drain()
			for _, s := range subs {
				for len(s.ch) > 0 {
					<-s.ch
				}
			}
			if err != nil {
				res.label("local-publish-refused")
				continue
			}
			ncopies := 0
			for _, w := range sent {
				for _, pm := range w.RPC.Publish {
					if string(pm.Data) != data {
						continue
					}
					ncopies++
					if ok, why := c03Accept(effective, anonymous, "", pm); !ok {
						res.violate("C03/own-message-unacceptable", mi, "policy %s, author mode %d, publish kind %d: the node's own message would be refused by a correct receiver: %s", c03PolicyNames[c.Policy], c.Author, m.Local, why)
					}
					if effective&msgSigning != 0 && pm.Signature == nil {
						res.violate("C03/own-message-unsigned", mi, "signing policy, but the published message carries no signature")
					}
					seenIDs[idOf(pm)] = true
				}
			}
			if ncopies == 0 {
				res.violate("C03/own-message-not-sent", mi, "publish succeeded but nothing was sent to the topic peers")
			}
			res.label("local-publish")
			continue
		}
		// inbound: an honest message, then tampering
		author := c03Author(m.Author)
		seq++
		tn := topics[m.Topic]
		base := vfSignedMsg(author, tn, seq, []byte(fmt.Sprintf("payload-%d", mi)))
		history = append(history, base)
		x := *base
		x.Data = append([]byte(nil), base.Data...)
		other := history[(mi*7)%len(history)]
		for _, tp := range m.Tampers {
			switch tp {
			case 0:
				x.Data = append(x.Data, '!')
			case 1:
				ot := topics[1-m.Topic]
				x.Topic = &ot
			case 2:
				x.From = []byte(c03Author((m.Author + 1) % 3).ID)
			case 3:
				x.Seqno = []byte{0, 0, 0, 0, 0, 0, 0, 1}
			case 4:
				x.Signature = nil
			case 5:
				x.Signature = []byte{} // present but empty
			case 6:
				x.Signature = other.Signature
			case 7:
				x.Key = other.Key
			case 8:
				k, _ := crypto.MarshalPublicKey(author.Pub)
				x.Key = k // the author's own key attached (redundant for ed25519)
			case 9:
				k, _ := crypto.MarshalPublicKey(vfPeer(37).Pub)
				x.Key = k // somebody else's key attached
			case 10:
				// re-signed by a key that does not belong to the claimed author, key attached
				forger := vfPeer(39)
				y := pb.Message{From: x.From, Data: x.Data, Seqno: x.Seqno, Topic: x.Topic}
				b, _ := y.Marshal()
				sig, _ := forger.Priv.Sign(append([]byte("libp2p-pubsub:"), b...))
				x.Signature = sig
				k, _ := crypto.MarshalPublicKey(forger.Pub)
				x.Key = k
			case 11:
				x.From = []byte(self)
			case 12:
				x.XXX_unrecognized = append(x.XXX_unrecognized, 0x7a, 0x01, 0x41) // unknown field 15, one byte
			case 13:
				x.From = nil
			case 14:
				x.Seqno = nil
			case 15:
				if len(x.From) > 3 {
					x.From = x.From[:len(x.From)-3] // truncated peer ID
				}
			case 16:
				x.Signature, x.From, x.Seqno, x.Key = nil, nil, nil, nil // fully anonymous
			case 17:
				if len(x.Signature) > 0 {
					s := append([]byte(nil), x.Signature...)
					s[len(s)/2] ^= 0x10
					x.Signature = s
				}
			case 18:
				x.Key = []byte("not a key")
			case 19:
				// forged with the key of an identity whose honest (attached-key) messages the node may have seen before
				forger := c03Author(2)
				y := pb.Message{From: x.From, Data: x.Data, Seqno: x.Seqno, Topic: x.Topic}
				b, _ := y.Marshal()
				sig, _ := forger.Priv.Sign(append([]byte("libp2p-pubsub:"), b...))
				x.Signature = sig
				k, _ := crypto.MarshalPublicKey(forger.Pub)
				x.Key = k
			}
		}
		// L0 differential: the library's verifier and the independent one agree on every message that carries a signature
		if x.Signature != nil {
			var libErr error
			pan := func() (p any) {
				defer func() { p = recover() }()
				libErr = verifyMessageSignature(&x)
				return
			}()
			if pan != nil {
				res.violate("C03/verify-panic", mi, "verifyMessageSignature panicked: %v", pan)
			} else if indep := c06Verify(&x); (libErr == nil) != (indep == nil) {
				res.violate("C03/verify-differs", mi, "verifyMessageSignature says %v, the independent implementation of the rule says %v (tampers %v)", libErr, indep, m.Tampers)
			}
		}
		want, why := c03Accept(effective, anonymous, self, &x)
		id := idOf(&x)
		dup := seenIDs[id]
		before := vfMustMarshal(&x)
		overloaded := false
		if c.Overload && m.Over {
			// fill the pipeline: the worker is held inside the validator with one filler, a second filler occupies the queue
			h := make(chan struct{})
			holdMu.Lock()
			hold = h
			holdMu.Unlock()
			for k := 0; k < 2; k++ {
				fillSeq++
				f := vfSignedMsg(vfPeer(9), topics[0], 1<<50+fillSeq, []byte(fmt.Sprintf("filler-%d", fillSeq)))
				if effective&msgSigning == 0 && effective&msgVerification != 0 {
					f.Signature, f.Key = nil, nil
					if anonymous {
						f.From, f.Seqno = nil, nil
					}
				}
				n.recv(4, vfMsgRPC(f))
				n.settle()
			}
			overloaded = true
			res.label("arrives-while-pipeline-full")
			n.recv(m.Sender, vfMsgRPC(&x))
			n.settle()
			holdMu.Lock()
			hold = nil
			holdMu.Unlock()
			close(h)
			n.settle()
		} else {
			n.recv(m.Sender, vfMsgRPC(&x))
			n.settle()
		}
		sent := n.drain()
		delivered := 0
		for len(subs[0].ch)+len(subs[1].ch) > 0 {
			select {
			case dm := <-subs[0].ch:
				if vfMustMarshal(dm.Message) == before {
					delivered++
				}
			case dm := <-subs[1].ch:
				if vfMustMarshal(dm.Message) == before {
					delivered++
				}
			}
		}
		forwarded, altered := 0, 0
		for _, w := range sent {
			for _, pm := range w.RPC.Publish {
				if vfMustMarshal(pm) == before {
					forwarded++
				} else if string(pm.Data) == string(x.Data) {
					altered++
				}
			}
		}
		desc := fmt.Sprintf("policy %s (author mode %d), author kind %d via peer %d, tampers %v", c03PolicyNames[c.Policy], c.Author, m.Author, m.Sender, m.Tampers)
		switch {
		case !want:
			if delivered > 0 || forwarded > 0 || altered > 0 {
				res.violate("C03/unauthentic-accepted", mi, "%s: must be refused (%s) but was delivered=%d forwarded=%d", desc, why, delivered, forwarded+altered)
			}
		case dup:
			if delivered > 0 || forwarded > 0 {
				res.violate("C03/duplicate-delivered", mi, "%s: same message ID as an earlier message, delivered=%d forwarded=%d", desc, delivered, forwarded)
			}
		case overloaded:
			// an authentic message that met a full pipeline may be dropped (and may come again later)
			if delivered > 0 {
				seenIDs[id] = true
			}
		default:
			seenIDs[id] = true
			if x.GetTopic() == topics[0] || x.GetTopic() == topics[1] {
				if delivered != 1 {
					res.violate("C03/authentic-refused", mi, "%s: a correct receiver accepts it, delivered %d times", desc, delivered)
				}
				if forwarded == 0 && altered == 0 {
					res.violate("C03/authentic-not-forwarded", mi, "%s: accepted but not forwarded", desc)
				}
				if altered > 0 {
					res.violate("C03/forwarded-altered", mi, "%s: the forwarded copy differs from the accepted message", desc)
				}
			}
		}
		baseOK, _ := c03Accept(effective, anonymous, self, base)
		if len(m.Tampers) > 0 && (want != baseOK || (want && effective&msgVerification == 0)) {
			nontrivial = true
		}
		if want {
			res.label("accepted")
		} else {
			res.label("refused")
		}
		if len(res.Viols) > 0 {
			return
		}
	}
	res.NT = nontrivial
}

func TestVfC03Signing(t *testing.T) {
	vfCheck(t, "C03", c03Gen, c03Run)
}
