package pubsub

// C13 (NET part): per-peer state is reclaimed after the peer is gone, with comm.go's stream goroutines, identify and
// the notifee running for real. Node N (gossipsub with scoring, gater, tag tracer on a recording connection manager),
// a bystander B (real node) and the peer P under observation: a skeleton peer that opens, closes and resets either
// stream direction in any order, refuses the node's respawned streams, sends RPCs on a stream that outlives the other
// direction, or a real node that subscribes, publishes and disconnects. After the final disconnect and the retention
// periods the peer's ID must be absent from the whole PubSub object graph and from the connection manager.

import (
	"context"
	"fmt"
	"strings"
	"testing"
	"time"

	"github.com/libp2p/go-libp2p"
	pb "github.com/libp2p/go-libp2p-pubsub/pb"
	"github.com/libp2p/go-libp2p/core/peer"
	"pgregory.net/rapid"
)

type c13nOp struct {
	Kind string `json:"k"`
	T    int    `json:"t,omitempty"`
	Ms   int    `json:"ms,omitempty"`
}

type c13nCase struct {
	Skeleton bool     `json:"skeleton"`
	Proto    int      `json:"proto"`
	Lat      int      `json:"lat"`
	Ops      []c13nOp `json:"ops"`
}

func c13nGen(rt *rapid.T) c13nCase {
	c := c13nCase{Skeleton: rapid.IntRange(0, 3).Draw(rt, "skel") > 0, Proto: rapid.SampledFrom([]int{0, 1, 2, 3, 4}).Draw(rt, "proto"),
		Lat: rapid.SampledFrom([]int{1, 5, 20}).Draw(rt, "lat")}
	kinds := []string{"connect", "disconnect", "open", "open", "closeout", "resetout", "resetin", "resetin", "refuse", "accept", "sub", "sub", "unsub", "graft", "graft", "prune",
		"pub", "pub", "pubslow", "ihave", "idontwant", "npub", "bpub", "wait", "wait"}
	if !c.Skeleton {
		kinds = []string{"connect", "disconnect", "sub", "sub", "unsub", "pub", "pub", "pubslow", "resetin", "resetout", "npub", "bpub", "wait", "wait"}
	}
	// state-aware: most histories begin with an established peer; re-connects get the time identify needs most of the time
	connected, open := false, false
	add := func(op c13nOp) { c.Ops = append(c.Ops, op) }
	for i := 0; i < rapid.IntRange(2, 24).Draw(rt, "nops"); i++ {
		op := c13nOp{Kind: rapid.SampledFrom(kinds).Draw(rt, "kind"), T: rapid.IntRange(0, 1).Draw(rt, "t")}
		if i == 0 && rapid.IntRange(0, 9).Draw(rt, "startConnected") > 0 {
			op.Kind = "connect"
		}
		switch op.Kind {
		case "wait":
			op.Ms = rapid.SampledFrom([]int{1, 30, 300, 1500, 4000}).Draw(rt, "ms")
		case "connect":
			if connected {
				continue
			}
			add(op)
			connected = true
			if rapid.IntRange(0, 4).Draw(rt, "settle") > 0 {
				add(c13nOp{Kind: "wait", Ms: 600})
			}
			if c.Skeleton && rapid.IntRange(0, 4).Draw(rt, "openToo") > 0 {
				add(c13nOp{Kind: "open"})
				open = true
				if rapid.Bool().Draw(rt, "subToo") {
					add(c13nOp{Kind: "sub", T: op.T})
				}
			}
			continue
		case "disconnect":
			if !connected {
				continue
			}
			connected, open = false, false
		case "open":
			if !connected || open {
				continue
			}
			open = true
		case "closeout", "resetout":
			if c.Skeleton && !open {
				continue
			}
			open = false
		case "sub", "unsub", "graft", "prune", "pub", "pubslow", "ihave", "idontwant":
			if c.Skeleton && !open {
				continue
			}
		case "resetin":
			if !connected {
				continue
			}
		}
		add(op)
	}
	return c
}

func c13nRun(t *testing.T, c c13nCase) (res vfResult) {
	msg := vfBubble(t, func() { c13nRunInBubble(t, c, &res) })
	if msg != "" {
		if strings.Contains(msg, "deadlock") {
			res.Inconclusive = "bubble did not drain: " + msg
		} else {
			res.violate("C13/panic", -1, "%s", msg)
		}
	}
	return
}

func c13nRunInBubble(t *testing.T, c c13nCase, res *vfResult) {
	const nN, nP, nB = 0, 1, 2
	cm := newVfConnMgr()
	s, err := newVfSimOpts(t, 3, func(a, b int) int { return c.Lat }, func(i int) []libp2p.Option {
		if i == nN {
			return []libp2p.Option{libp2p.ConnectionManager(cm)}
		}
		return nil
	})
	if err != nil {
		res.Inconclusive = err.Error()
		return
	}
	defer s.close()
	slow := func(ctx context.Context, p peer.ID, m *Message) bool {
		if strings.HasPrefix(string(m.Data), "slow") {
			select {
			case <-time.After(3 * time.Second):
			case <-ctx.Done():
			}
		}
		return true
	}
	score := &PeerScoreParams{AppSpecificScore: func(peer.ID) float64 { return 0 }, DecayInterval: time.Second, DecayToZero: 0.01, RetainScore: 20 * time.Second,
		Topics: map[string]*TopicScoreParams{}}
	gp := DefaultGossipSubParams()
	gp.PruneBackoff = 10 * time.Second
	gp.UnsubscribeBackoff = 5 * time.Second
	gater := NewPeerGaterParams(.1, .9, .999)
	gater.RetainStats = 20 * time.Second
	if err := s.start(nN, "gossipsub", WithGossipSubParams(gp), WithPeerScore(score, &PeerScoreThresholds{}), WithPeerGater(gater),
		WithDefaultValidator(slow), WithSeenMessagesTTL(30*time.Second)); err != nil {
		res.Inconclusive = err.Error()
		return
	}
	if err := s.start(nB, "gossipsub"); err != nil {
		res.Inconclusive = err.Error()
		return
	}
	N, B := s.nodes[nN], s.nodes[nB]
	pid := vfPeer(nP)
	var P *vfSkel
	proto := vfProto(c.Proto)
	if c.Skeleton {
		P = s.skeleton(nP, proto)
	} else if err := s.start(nP, "gossipsub"); err != nil {
		res.Inconclusive = err.Error()
		return
	}
	var nsubs []*Subscription
	for tp := 0; tp < 2; tp++ {
		sub, err := N.ps.Subscribe(vfTopic(tp))
		if err != nil {
			res.Inconclusive = err.Error()
			return
		}
		nsubs = append(nsubs, sub)
		if bs, err := B.ps.Subscribe(vfTopic(tp)); err == nil {
			nsubs = append(nsubs, bs)
		}
	}
	if err := s.connect(nB, nN); err != nil {
		res.Inconclusive = err.Error()
		return
	}
	connected := false
	var psubs [2]*Subscription
	seq := uint64(0)
	var lastSlow, lastPub time.Duration = -time.Hour, -time.Hour
	midFlight := false
	crossed, afterOut, usedBackoff := false, false, false
	send := func(r *pb.RPC) {
		if P != nil && P.hasOut(nN) {
			P.send(nN, r)
			if P.openIn(nN) == 0 {
				afterOut = true // an RPC on P's stream while the node's own stream to P is gone
			}
		}
	}
	for _, op := range c.Ops {
		switch op.Kind {
		case "connect":
			if !connected {
				if err := s.connect(nP, nN); err != nil {
					res.Inconclusive = fmt.Sprintf("connect: %v", err)
					return
				}
				connected = true
			}
		case "disconnect":
			if connected {
				if s.now()-lastSlow < 3500*time.Millisecond+time.Duration(4*c.Lat)*time.Millisecond || s.now()-lastPub < 200*time.Millisecond+time.Duration(4*c.Lat)*time.Millisecond {
					midFlight = true // a verdict will arrive after this disconnect; only a later complete connection cycle removes what it creates
				}
				s.disconnect(nP, nN)
				if P != nil {
					P.closeOut(nN, true)
				}
				connected = false
				s.wait(time.Duration(2*c.Lat+100) * time.Millisecond)
			}
		case "open":
			if connected && P != nil && !P.hasOut(nN) {
				P.openOut(nN, proto)
			}
		case "closeout", "resetout":
			if P != nil && P.hasOut(nN) {
				if P.openIn(nN) > 0 {
					crossed = true // P's stream goes first although the node's was opened first or is still up
				}
				P.closeOut(nN, op.Kind == "resetout")
			} else if P == nil && connected && op.Kind == "resetout" {
				// real peer: reset its outbound stream at the node's side
				c05ResetInbound(s, nN, nP)
			}
		case "resetin":
			if connected {
				n := 0
				if P != nil {
					n = P.resetIn(nN)
				} else {
					n = c05ResetInbound(s, nP, nN)
				}
				if n > 0 {
					usedBackoff = true
				}
			}
		case "refuse", "accept":
			if P != nil {
				P.setRefuse(op.Kind == "refuse")
			}
		case "sub", "unsub":
			if P != nil {
				send(&vfSubRPC(vfTopic(op.T), op.Kind == "sub").RPC)
			} else if op.Kind == "sub" && psubs[op.T] == nil {
				psubs[op.T], _ = s.nodes[nP].ps.Subscribe(vfTopic(op.T))
			} else if op.Kind == "unsub" && psubs[op.T] != nil {
				psubs[op.T].Cancel()
				psubs[op.T] = nil
			}
		case "graft":
			send(&vfGraftRPC(vfTopic(op.T)).RPC)
		case "prune":
			send(&vfPruneRPC(vfTopic(op.T), 5, nil).RPC)
		case "pub", "pubslow":
			seq++
			data := fmt.Sprintf("p-%d", seq)
			lastPub = s.now()
			if op.Kind == "pubslow" {
				data = "slow-" + data
				lastSlow = s.now()
			}
			if P != nil {
				send(&pb.RPC{Publish: []*pb.Message{vfSignedMsg(pid, vfTopic(op.T), seq, []byte(data))}})
			} else {
				s.nodes[nP].ps.Publish(vfTopic(op.T), []byte(data))
			}
		case "ihave":
			mid := "nonexistent"
			tp := vfTopic(op.T)
			send(&pb.RPC{Control: &pb.ControlMessage{Ihave: []*pb.ControlIHave{{TopicID: &tp, MessageIDs: []string{mid}}}}})
		case "idontwant":
			send(&pb.RPC{Control: &pb.ControlMessage{Idontwant: []*pb.ControlIDontWant{{MessageIDs: []string{"abc"}}}}})
		case "npub":
			N.ps.Publish(vfTopic(op.T), []byte(fmt.Sprintf("n-%d", len(c.Ops))+fmt.Sprint(s.now())))
		case "bpub":
			B.ps.Publish(vfTopic(op.T), []byte(fmt.Sprintf("b-%v", s.now())))
		case "wait":
			s.wait(time.Duration(op.Ms) * time.Millisecond)
		}
	}
	// the peer leaves for good
	inFlight := s.now()-lastSlow < 3500*time.Millisecond+time.Duration(4*c.Lat)*time.Millisecond ||
		s.now()-lastPub < 200*time.Millisecond+time.Duration(4*c.Lat)*time.Millisecond || // still on the wire or in the pipeline when the peer leaves
		midFlight
	if connected {
		s.disconnect(nP, nN)
		if P != nil {
			P.closeOut(nN, true)
		}
	}
	if !c.Skeleton {
		s.nodes[nP].cancel()
	}
	// retention: score 20 s, gater 20 s + decay tick, prune back-off 10 s + sweep, seen TTL 30 s + sweep, promises 3 s,
	// slow validation 3 s; dead-peer back-off entries live 10 min + 1 min clean-up
	wait := 3 * time.Minute
	var entries int
	s.wait(3 * time.Second) // the node notices the disconnect; a respawn attempt that raced with it is on record now
	s.eval(nN, func() { N.ps.deadPeerBackoff.mu.Lock(); entries = len(N.ps.deadPeerBackoff.info); N.ps.deadPeerBackoff.mu.Unlock() })
	if entries > 0 || usedBackoff {
		wait = 12 * time.Minute
		res.label("dead-peer-backoff-used")
	}
	for waited := time.Duration(0); waited < wait; waited += 10 * time.Second {
		s.wait(10 * time.Second)
		for _, sub := range nsubs {
			for len(sub.ch) > 0 {
				<-sub.ch
			}
		}
	}
	if s.connected(nP, nN) {
		res.Inconclusive = "the peer is still connected at the end"
		return
	}
	s.eval(nN, func() {
		for _, h := range vfFindPeer(N.ps, pid.ID) {
			key := vfWalkKey(h)
			if inFlight && strings.Contains(h, "(*pubsub.peerGater).peerStats") || inFlight && key == "ps.rt.gate.peerStats" {
				res.violate("C13/leak:gater.peerStats:validation-after-disconnect", -1, "the peer is still referenced at %s (its message was still being validated when it disconnected)", h)
				continue
			}
			res.violate("C13/leak:walk:"+key, -1, "the peer (%s, skeleton=%v) is still referenced at %s after it disconnected and the retention periods elapsed", proto, c.Skeleton, h)
		}
	})
	for _, tag := range cm.tagsOf(pid.ID) {
		res.violate("C13/leak:connmgr-protection", -1, "the peer is still protected in the connection manager under %q", tag)
	}
	res.NT = crossed || afterOut || usedBackoff || inFlight
	if crossed {
		res.label("closed-in-other-order-than-opened")
	}
	if afterOut {
		res.label("rpc-while-node-stream-down")
	}
	if inFlight {
		res.label("validation-may-outlive-connection")
	}
	if c.Skeleton {
		res.label("skeleton:" + string(proto))
	} else {
		res.label("real-peer")
	}
}

func TestVfC13Net(t *testing.T) {
	vfCheck(t, "C13", c13nGen, c13nRun)
}
