//go:debug randseednop=0

package pubsub

// Shared plumbing of the /verif property-based harness (see /verif/DESIGN.md §2, §4).
//
// A check is a pair (generator, interpreter):
//   - the generator draws a JSON-serialisable Case from rapid (pure data),
//   - the interpreter builds a fresh system under test and a reference model, applies the case and
//     returns a vfResult (non-trivial flag, class labels, violations with classification keys).
//
// vfCheck glues them to rapid (search + shrinking), to the statistics sink (evidence), to the replay
// mechanism (VF_REPLAY bypasses rapid) and to the known-findings protocol (VF_KNOWN keys are excused and
// counted so the search continues behind an open finding).

import (
	"encoding/hex"
	"encoding/json"
	"fmt"
	"hash/fnv"
	"os"
	"path/filepath"
	"runtime"
	"runtime/debug"
	"sort"
	"strconv"
	"time"
	"strings"
	"sync"
	"testing"
	"testing/synctest"

	"pgregory.net/rapid"
)

type vfViol struct {
	Key  string `json:"key"`
	Msg  string `json:"message"`
	Step int    `json:"step"`
}

type vfResult struct {
	NT           bool     // non-trivial by the property's stated rule
	Labels       []string // class labels for the evidence histogram
	Viols        []vfViol
	Inconclusive string // non-empty: environment precondition unmet; case neither passes nor fails
}

func (r *vfResult) violate(key string, step int, format string, args ...any) {
	// keep at most a handful per case; the first per key is what matters
	for _, v := range r.Viols {
		if v.Key == key {
			return
		}
	}
	r.Viols = append(r.Viols, vfViol{Key: key, Msg: fmt.Sprintf(format, args...), Step: step})
}

func (r *vfResult) label(l string) {
	for _, x := range r.Labels {
		if x == l {
			return
		}
	}
	r.Labels = append(r.Labels, l)
}

// ---------------------------------------------------------------------------------------------------
// environment

var vfEnv struct {
	tier       string
	seed       int64
	statsPath  string
	outDir     string
	replay     string
	replayRuns int
	known      map[string]bool
	inflight   bool
	params     map[string]string
}

func vfInitEnv() {
	vfEnv.tier = os.Getenv("VF_TIER")
	if vfEnv.tier == "" {
		vfEnv.tier = "quick"
	}
	vfEnv.seed, _ = strconv.ParseInt(os.Getenv("VF_SEED"), 10, 64)
	vfEnv.statsPath = os.Getenv("VF_STATS")
	vfEnv.outDir = os.Getenv("VF_OUT")
	if vfEnv.outDir == "" {
		vfEnv.outDir = "."
	}
	vfEnv.replay = os.Getenv("VF_REPLAY")
	vfEnv.replayRuns, _ = strconv.Atoi(os.Getenv("VF_REPLAY_RUNS"))
	if vfEnv.replayRuns <= 0 {
		vfEnv.replayRuns = 3
	}
	vfEnv.known = map[string]bool{}
	for _, k := range strings.Split(os.Getenv("VF_KNOWN"), ";") {
		if k != "" {
			vfEnv.known[k] = true
		}
	}
	vfEnv.inflight = os.Getenv("VF_INFLIGHT") != ""
	vfEnv.params = map[string]string{}
	for _, kv := range strings.Split(os.Getenv("VF_PARAMS"), ",") {
		if i := strings.IndexByte(kv, '='); i > 0 {
			vfEnv.params[kv[:i]] = kv[i+1:]
		}
	}
}

// vfParamInt reads an integer knob passed by the driver (VF_PARAMS=k=v,...) with a default.
func vfParamInt(name string, def int) int {
	if v, ok := vfEnv.params[name]; ok {
		if n, err := strconv.Atoi(v); err == nil {
			return n
		}
	}
	return def
}

func vfThorough() bool { return vfEnv.tier == "thorough" }

func TestMain(m *testing.M) {
	vfInitEnv()
	code := m.Run()
	vfFlushStats()
	os.Exit(code)
}

// ---------------------------------------------------------------------------------------------------
// statistics sink -> evidence

type vfAgg struct {
	Property     string            `json:"property"`
	Test         string            `json:"test"`
	Evaluations  int               `json:"evaluations"`
	NonTrivial   int               `json:"nontrivial_evaluations"`
	NTHashes     []string          `json:"nt_hashes"`
	Labels       map[string]int    `json:"labels"`
	Samples      []json.RawMessage `json:"samples"`
	Excluded     map[string]int    `json:"excluded_known"`
	Inconclusive map[string]int    `json:"inconclusive"`
	Violations   int               `json:"violations"`
	Exhaustive   bool              `json:"exhaustive"`
	Notes        map[string]string `json:"notes,omitempty"`

	nt      map[uint64]struct{}
	ntSeen  int
	samples [][]byte
}

var (
	vfAggMu sync.Mutex
	vfAggs  = map[string]*vfAgg{}
)

func vfAggFor(prop, test string) *vfAgg {
	a, ok := vfAggs[test]
	if !ok {
		a = &vfAgg{Property: prop, Test: test, Labels: map[string]int{}, Excluded: map[string]int{},
			Inconclusive: map[string]int{}, nt: map[uint64]struct{}{}, Notes: map[string]string{}}
		vfAggs[test] = a
	}
	return a
}

func vfHash(b []byte) uint64 {
	h := fnv.New64a()
	h.Write(b)
	return h.Sum64()
}

const vfMaxSamples = 6

func vfRecord(prop, test string, caseJSON []byte, res *vfResult) {
	vfAggMu.Lock()
	defer vfAggMu.Unlock()
	a := vfAggFor(prop, test)
	a.Evaluations++
	if res.Inconclusive != "" {
		a.Inconclusive[vfInconclusiveKey(res.Inconclusive)]++
		if d := os.Getenv("VF_DEBUG_INCONCLUSIVE"); d != "" {
			_ = os.WriteFile(filepath.Join(d, fmt.Sprintf("inconclusive-%x.json", vfHash(caseJSON))), caseJSON, 0o644)
		}
		return
	}
	for _, l := range res.Labels {
		a.Labels[l]++
	}
	if res.NT {
		a.NonTrivial++
		h := vfHash(caseJSON)
		if _, dup := a.nt[h]; !dup {
			a.nt[h] = struct{}{}
			a.ntSeen++
			// first 3 distinct non-trivial cases, then a deterministic thinning reservoir for 3 more
			if len(a.samples) < 3 {
				a.samples = append(a.samples, append([]byte(nil), caseJSON...))
			} else if len(caseJSON) < 4096 {
				if len(a.samples) < vfMaxSamples {
					a.samples = append(a.samples, append([]byte(nil), caseJSON...))
				} else if h%uint64(a.ntSeen) < 3 {
					a.samples[3+int(h%3)] = append([]byte(nil), caseJSON...)
				}
			}
		}
	}
}

func vfNote(prop, test, k, v string) {
	vfAggMu.Lock()
	defer vfAggMu.Unlock()
	vfAggFor(prop, test).Notes[k] = v
}

func vfFlushStats() {
	if vfEnv.statsPath == "" {
		return
	}
	vfAggMu.Lock()
	defer vfAggMu.Unlock()
	var out []*vfAgg
	names := make([]string, 0, len(vfAggs))
	for n := range vfAggs {
		names = append(names, n)
	}
	sort.Strings(names)
	for _, n := range names {
		a := vfAggs[n]
		a.NTHashes = a.NTHashes[:0]
		for h := range a.nt {
			var b [8]byte
			for i := 0; i < 8; i++ {
				b[i] = byte(h >> (8 * i))
			}
			a.NTHashes = append(a.NTHashes, hex.EncodeToString(b[:]))
		}
		sort.Strings(a.NTHashes)
		a.Samples = a.Samples[:0]
		for _, s := range a.samples {
			a.Samples = append(a.Samples, json.RawMessage(s))
		}
		out = append(out, a)
	}
	b, err := json.Marshal(out)
	if err == nil {
		_ = os.WriteFile(vfEnv.statsPath, b, 0o644)
	}
}

// ---------------------------------------------------------------------------------------------------
// case files

type vfCaseFile struct {
	Property   string          `json:"property"`
	Test       string          `json:"test"`
	Case       json.RawMessage `json:"case"`
	Violations []vfViol        `json:"violations,omitempty"`
	Note       string          `json:"note,omitempty"`
}

func vfWriteCaseFile(name, prop, test string, caseJSON []byte, viols []vfViol) {
	cf := vfCaseFile{Property: prop, Test: test, Case: caseJSON, Violations: viols}
	b, err := json.MarshalIndent(cf, "", " ")
	if err != nil {
		return
	}
	_ = os.WriteFile(filepath.Join(vfEnv.outDir, name), b, 0o644)
}

// ---------------------------------------------------------------------------------------------------
// the check combinator

// vfSafeRun executes run(c) converting a panic on the calling goroutine into a violation.
func vfSafeRun[C any](t *testing.T, prop string, c C, run func(*testing.T, C) vfResult) (res vfResult) {
	defer func() {
		if r := recover(); r != nil {
			st := string(debug.Stack())
			res.violate(prop+"/panic", -1, "panic: %v\n%s", r, vfTrimStack(st))
		}
	}()
	return run(t, c)
}

func vfTrimStack(s string) string {
	lines := strings.Split(s, "\n")
	if len(lines) > 40 {
		lines = lines[:40]
	}
	return strings.Join(lines, "\n")
}

// vfCheck runs one generated-input check. gen must draw everything from rapid; run must be a function
// of the case alone (up to the library's own random peer selection, see DESIGN §2.3).
func vfCheck[C any](t *testing.T, prop string, gen func(*rapid.T) C, run func(*testing.T, C) vfResult) {
	test := t.Name()
	if vfEnv.replay != "" {
		vfReplay(t, prop, run)
		return
	}
	rapid.Check(t, func(rt *rapid.T) {
		c := gen(rt)
		cj, err := json.Marshal(c)
		if err != nil {
			rt.Fatalf("harness: case does not marshal: %v", err)
		}
		if vfEnv.inflight {
			vfWriteCaseFile("inflight-"+test+".json", prop, test, cj, nil)
		}
		res := vfSafeRun(t, prop, c, run)
		vfRecord(prop, test, cj, &res)
		var real []vfViol
		for _, v := range res.Viols {
			if vfEnv.known[v.Key] {
				vfAggMu.Lock()
				vfAggFor(prop, test).Excluded[v.Key]++
				vfAggMu.Unlock()
				continue
			}
			real = append(real, v)
		}
		if len(real) > 0 {
			vfAggMu.Lock()
			vfAggFor(prop, test).Violations++
			vfAggMu.Unlock()
			vfWriteCaseFile("lastfail-"+test+".json", prop, test, cj, real)
			rt.Fatalf("VF-VIOLATION key=%s step=%d %s", real[0].Key, real[0].Step, real[0].Msg)
		}
	})
	if vfEnv.inflight {
		_ = os.Remove(filepath.Join(vfEnv.outDir, "inflight-"+test+".json"))
	}
}

// vfReplay executes a stored case, bypassing rapid. Every violation key observed is printed as
// "VF-REPLAY-VIOLATION key=<key> <message>"; the driver decides what that means (witness of a known
// finding, regression replay, user replay).
func vfReplay[C any](t *testing.T, prop string, run func(*testing.T, C) vfResult) {
	b, err := os.ReadFile(vfEnv.replay)
	if err != nil {
		t.Fatalf("harness: cannot read replay file: %v", err)
	}
	var cf vfCaseFile
	if err := json.Unmarshal(b, &cf); err != nil {
		t.Fatalf("harness: bad replay file: %v", err)
	}
	if cf.Test != t.Name() {
		t.Skipf("replay file is for %s", cf.Test)
	}
	var c C
	if err := json.Unmarshal(cf.Case, &c); err != nil {
		t.Fatalf("harness: bad case in replay file: %v", err)
	}
	seen := map[string]bool{}
	for i := 0; i < vfEnv.replayRuns; i++ {
		res := vfSafeRun(t, prop, c, run)
		if res.Inconclusive != "" {
			fmt.Printf("VF-REPLAY-INCONCLUSIVE %s\n", res.Inconclusive)
		}
		for _, v := range res.Viols {
			if !seen[v.Key] {
				seen[v.Key] = true
				fmt.Printf("VF-REPLAY-VIOLATION key=%s step=%d %s\n", v.Key, v.Step, strings.ReplaceAll(v.Msg, "\n", " | "))
			}
		}
	}
	fmt.Printf("VF-REPLAY-DONE runs=%d keys=%d\n", vfEnv.replayRuns, len(seen))
	if len(seen) > 0 {
		t.Fail()
	}
}

// vfExhaustive runs an enumerated (not random) list of cases through the same plumbing.
func vfExhaustive[C any](t *testing.T, prop string, enum func(yield func(C) bool), run func(*testing.T, C) vfResult) {
	test := t.Name()
	if vfEnv.replay != "" {
		vfReplay(t, prop, run)
		return
	}
	failed := false
	enum(func(c C) bool {
		cj, _ := json.Marshal(c)
		res := vfSafeRun(t, prop, c, run)
		vfRecord(prop, test, cj, &res)
		var real []vfViol
		for _, v := range res.Viols {
			if vfEnv.known[v.Key] {
				vfAggMu.Lock()
				vfAggFor(prop, test).Excluded[v.Key]++
				vfAggMu.Unlock()
				continue
			}
			real = append(real, v)
		}
		if len(real) > 0 {
			vfAggMu.Lock()
			vfAggFor(prop, test).Violations++
			vfAggMu.Unlock()
			vfWriteCaseFile("lastfail-"+test+".json", prop, test, cj, real)
			t.Errorf("VF-VIOLATION key=%s step=%d %s", real[0].Key, real[0].Step, real[0].Msg)
			failed = true
			return false // enumeration is ordered by size: the first failure is a smallest one
		}
		return true
	})
	if !failed {
		vfAggMu.Lock()
		vfAggFor(prop, test).Exhaustive = true
		vfAggMu.Unlock()
	}
}

// vfBubble runs f inside a fresh synctest bubble (virtual clock). A panic in f (on the bubble's root
// goroutine) is returned as a string instead of tearing the test down. A bubble that cannot drain
// ("deadlock: ... blocked goroutines remain") surfaces as a panic from synctest.Test in the caller and is
// returned the same way.
func vfBubble(t *testing.T, f func()) (panicMsg string) {
	defer func() {
		if r := recover(); r != nil {
			panicMsg = fmt.Sprintf("%v", r)
			if strings.Contains(panicMsg, "deadlock") {
				buf := make([]byte, 1<<20)
				k := runtime.Stack(buf, true)
				panicMsg += "\n" + vfBubbleStacks(string(buf[:k]))
			}
		}
	}()
	var inner string
	// real-time watchdog, outside the bubble: a bubble whose clock cannot advance (a goroutine waiting for a
	// sync.Mutex is not durably blocked) would otherwise burn the whole shard budget. Budget hit = inconclusive.
	stopWatch := make(chan struct{})
	go vfStallWatch(stopWatch)
	stall := vfStopper(func() { close(stopWatch) })
	defer stall.Stop()
	synctest.Test(t, func(*testing.T) {
		defer func() {
			if r := recover(); r != nil {
				inner = fmt.Sprintf("%v\n%s", r, vfTrimStack(string(debug.Stack())))
			}
		}()
		f()
	})
	return inner
}

// vfInconclusiveKey shortens a reason to a stable key: first line, digits and addresses removed; for a bubble that did
// not drain, the function the first remaining goroutine sits in.
func vfInconclusiveKey(r string) string {
	if strings.Contains(r, "deadlock: main bubble goroutine has exited") {
		for _, line := range strings.Split(r, "\n") {
			line = strings.TrimSpace(line)
			if strings.HasPrefix(line, "github.com/") || strings.HasPrefix(line, "internal/") || strings.HasPrefix(line, "sync.") || strings.HasPrefix(line, "time.") {
				if i := strings.IndexByte(line, '('); i > 0 {
					if j := strings.LastIndexByte(line, '('); j > i {
						line = line[:j]
					}
				}
				return "bubble did not drain: " + line
			}
		}
		return "bubble did not drain"
	}
	first := strings.SplitN(r, "\n", 2)[0]
	var b strings.Builder
	for _, ch := range first {
		if ch >= '0' && ch <= '9' {
			ch = '#'
		}
		b.WriteRune(ch)
	}
	k := b.String()
	if len(k) > 160 {
		k = k[:160]
	}
	return k
}

type vfStopper func()

func (f vfStopper) Stop() { f() }

// vfStallWatch runs outside the bubble, on the real clock. Every 30 s (after vfStallSeconds) it looks for a bubble
// goroutine that has been waiting for a sync.Mutex / RWMutex for two real minutes or more: inside a bubble such a
// goroutine is not durably blocked, the virtual clock cannot advance, and nothing in a healthy case holds a lock for
// minutes of real time. It prints the goroutines and, when the waiter sits in library code, a VF-STALL-LOCK line naming
// the function; then the process exits (4). The driver decides per part whether that is inconclusive or a violation.
func vfStallWatch(stop <-chan struct{}) {
	select {
	case <-stop:
		return
	case <-time.After(time.Duration(vfStallSeconds()) * time.Second):
	}
	for {
		buf := make([]byte, 8<<20)
		k := runtime.Stack(buf, true)
		var stuck []string
		lockFn := ""
		for _, g := range strings.Split(string(buf[:k]), "\n\n") {
			head := strings.SplitN(g, "\n", 2)[0]
			if !strings.Contains(head, "synctest bubble") || !strings.Contains(head, "minutes") {
				continue
			}
			if !(strings.Contains(head, "[sync.Mutex.Lock") || strings.Contains(head, "[sync.RWMutex.Lock") || strings.Contains(head, "[sync.RWMutex.RLock")) {
				continue
			}
			var mins int
			if i := strings.Index(head, ", "); i > 0 {
				fmt.Sscanf(head[i+2:], "%d minutes", &mins)
			}
			if mins < 2 {
				continue
			}
			stuck = append(stuck, g)
			if lockFn == "" {
				for _, line := range strings.Split(g, "\n") {
					if i := strings.Index(line, "go-libp2p-pubsub"); i >= 0 && !strings.Contains(line, "/repo/") {
						fn := line[i:]
						if j := strings.Index(fn, "."); j >= 0 {
							fn = fn[j+1:]
						}
						if strings.HasPrefix(fn, "vf") || strings.HasPrefix(fn, "c1") || strings.HasPrefix(fn, "c0") || strings.HasPrefix(fn, "c2") || strings.HasPrefix(fn, "(*c") || strings.HasPrefix(fn, "(*vf") {
							break // the waiter is harness code
						}
						if j := strings.LastIndexByte(fn, '('); j > 0 {
							fn = fn[:j]
						}
						lockFn = strings.NewReplacer("(", "", ")", "", "*", "").Replace(fn)
						break
					}
				}
			}
		}
		if len(stuck) > 0 {
			if lockFn != "" {
				fmt.Fprintf(os.Stderr, "VF-STALL-LOCK: %s\n", lockFn)
			}
			fmt.Fprintf(os.Stderr, "VF-STALL: goroutines of the bubble have been waiting for a lock for minutes of real time; the virtual clock cannot advance:\n%s\n", strings.Join(stuck, "\n\n"))
			os.Exit(4)
		}
		select {
		case <-stop:
			return
		case <-time.After(30 * time.Second):
		}
	}
}

func vfStallSeconds() int {
	if v, err := strconv.Atoi(os.Getenv("VF_STALL")); err == nil && v > 0 {
		return v
	}
	return 150
}

// vfBubbleStacks keeps the goroutines of a bubble that are still blocked (first lines of each), so a report
// names the library code that did not terminate.
func vfBubbleStacks(dump string) string {
	var out []string
	// goroutines leaked by earlier cases sit in older bubbles: keep the newest bubble only
	newest := 0
	bubbleOf := func(g string) int {
		head := strings.SplitN(g, "\n", 2)[0]
		i := strings.Index(head, "synctest bubble ")
		if i < 0 {
			return -1
		}
		n, _ := strconv.Atoi(strings.TrimRight(strings.TrimSpace(head[i+len("synctest bubble "):]), "]:"))
		return n
	}
	for _, g := range strings.Split(dump, "\n\n") {
		if b := bubbleOf(g); b > newest {
			newest = b
		}
	}
	for _, g := range strings.Split(dump, "\n\n") {
		if bubbleOf(g) != newest || strings.Contains(g, "vfBubble") {
			continue
		}
		lines := strings.Split(g, "\n")
		if len(lines) > 9 {
			lines = lines[:9]
		}
		out = append(out, strings.Join(lines, "\n"))
		if len(out) >= 6 {
			break
		}
	}
	return strings.Join(out, "\n--\n")
}
