package pubsub

// C13 — all state attributable to a peer is reclaimed after it disconnects (DESIGN §5 C13), direct-drive part.
// One or two remote peers of every protocol version do whatever they like to a gossipsub node with scoring, gater,
// both extensions, peer exchange and the tag tracer; their streams open and close in any order; after the
// final disconnect and the retention periods the peer ID must be gone from an explicit list of maps, from a
// reflection walk over the whole PubSub object graph and from the connection manager's protections.

import (
	"os"
	"context"
	"fmt"
	"log/slog"
	"testing"
	"time"

	"github.com/libp2p/go-libp2p-pubsub/partialmessages"
	pb "github.com/libp2p/go-libp2p-pubsub/pb"
	"github.com/libp2p/go-libp2p/core/peer"
	"pgregory.net/rapid"
)

type c13Op struct {
	Op string `json:"op"`
	P  int    `json:"p"`
	T  int    `json:"t,omitempty"`
	N  int    `json:"n,omitempty"`
}

type c13Case struct {
	Protos []int   `json:"protos"` // protocol per remote peer (1 or 2 peers)
	Direct bool    `json:"direct,omitempty"` // peer 1 is a configured direct peer (its <direct> tag is configuration)
	Ops    []c13Op `json:"ops"`
}

func c13Gen(rt *rapid.T) c13Case {
	c := c13Case{Direct: rapid.IntRange(0, 7).Draw(rt, "direct") == 0}
	np := rapid.IntRange(1, 2).Draw(rt, "npeers")
	for i := 0; i < np; i++ {
		c.Protos = append(c.Protos, rapid.SampledFrom([]int{1, 2, 3, 4, 4, 0}).Draw(rt, "proto"))
	}
	n := rapid.IntRange(2, 40).Draw(rt, "nops")
	kinds := []string{"out+", "out+", "out-", "out-keep", "in+", "in-", "sub", "sub", "unsub", "graft", "graft", "prune", "ihave", "iwant", "idontwant", "ext", "partial", "testext",
		"pub", "pub", "pubbad", "pubslow", "pubreject", "lpub", "blacklist", "hb", "adv", "flap"}
	for i := 0; i < n; i++ {
		op := c13Op{Op: rapid.SampledFrom(kinds).Draw(rt, "op"), P: rapid.IntRange(1, np).Draw(rt, "p"), T: rapid.IntRange(0, 1).Draw(rt, "t")}
		switch op.Op {
		case "adv":
			op.N = rapid.SampledFrom([]int{50, 500, 2500}).Draw(rt, "ms")
		case "flap":
			op.N = rapid.IntRange(1, 7).Draw(rt, "times")
		case "blacklist":
			if rapid.IntRange(0, 3).Draw(rt, "really") > 0 {
				op.Op = "hb"
			}
		}
		c.Ops = append(c.Ops, op)
	}
	return c
}

func c13Run(t *testing.T, c c13Case) (res vfResult) {
	msg := vfBubble(t, func() { c13RunInBubble(t, c, &res) })
	if msg != "" {
		res.violate("C13/panic", -1, "%s", msg)
	}
	return
}

type c13PeerState struct{ n int }

func c13RunInBubble(t *testing.T, c c13Case, res *vfResult) {
	gp := DefaultGossipSubParams()
	gp.D, gp.Dlo, gp.Dhi, gp.Dscore, gp.Dout = 3, 1, 6, 0, 0
	gp.PruneBackoff, gp.UnsubscribeBackoff = 10*time.Second, 5*time.Second
	topics := []string{vfTopic(0), vfTopic(1)}
	tsp := func() *TopicScoreParams {
		return &TopicScoreParams{SkipAtomicValidation: true, TopicWeight: 1, InvalidMessageDeliveriesWeight: -1, InvalidMessageDeliveriesDecay: 0.9,
			FirstMessageDeliveriesWeight: 1, FirstMessageDeliveriesDecay: 0.9, FirstMessageDeliveriesCap: 10, TimeInMeshWeight: 0.01, TimeInMeshQuantum: time.Second, TimeInMeshCap: 10}
	}
	gater := NewPeerGaterParams(.1, .9, .999)
	gater.RetainStats = 20 * time.Second
	var pme *partialmessages.PartialMessagesExtension[*c13PeerState]
	pme = &partialmessages.PartialMessagesExtension[*c13PeerState]{
		Logger:       slog.Default(),
		OnEmitGossip: func(topic string, groupID []byte, gossipPeers []peer.ID, peerStates map[peer.ID]*c13PeerState) {},
		OnIncomingRPC: func(from peer.ID, peerStates map[peer.ID]*c13PeerState, rpc *pb.PartialMessagesExtension) error {
			st := peerStates[from]
			if st == nil {
				st = &c13PeerState{}
			}
			st.n++
			peerStates[from] = st
			return nil
		},
		GroupTTLByHeatbeat: 5,
	}
	slow := func(ctx context.Context, p peer.ID, m *Message) ValidationResult {
		switch {
		case len(m.Data) > 4 && string(m.Data[:4]) == "slow":
			select {
			case <-time.After(3 * time.Second):
			case <-ctx.Done():
			}
		case len(m.Data) > 6 && string(m.Data[:6]) == "reject":
			return ValidationReject
		}
		return ValidationAccept
	}
	opts := []Option{
		WithPeerScore(&PeerScoreParams{AppSpecificScore: func(peer.ID) float64 { return 0 }, DecayInterval: time.Second, DecayToZero: 0.01, RetainScore: 20 * time.Second,
			BehaviourPenaltyWeight: -1, BehaviourPenaltyDecay: 0.9, BehaviourPenaltyThreshold: 1,
			Topics: map[string]*TopicScoreParams{topics[0]: tsp(), topics[1]: tsp()}},
			&PeerScoreThresholds{GossipThreshold: -1e6, PublishThreshold: -1e6, GraylistThreshold: -1e6, AcceptPXThreshold: 1e6}),
		WithPeerGater(gater), WithPeerExchange(true),
		WithTestExtension(TestExtensionConfig{OnReceiveTestExtension: func(peer.ID) {}}),
		WithPartialMessagesExtension(pme),
		WithDefaultValidator(slow),
		WithSeenMessagesTTL(30 * time.Second),
	}
	if c.Direct {
		opts = append(opts, WithDirectPeers([]peer.AddrInfo{{ID: vfPeer(1).ID}}))
	}
	n, err := newVfNode(t, vfNodeCfg{Router: "gossipsub", Params: &gp, Opts: opts}) // automatic heartbeats
	if err != nil {
		res.Inconclusive = err.Error()
		return
	}
	defer n.close()
	var ths []*Topic
	var subs []*Subscription
	for i, tn := range topics {
		var to []TopicOpt
		if i == 0 {
			to = append(to, RequestPartialMessages())
		}
		th, err := n.ps.Join(tn, to...)
		if err != nil {
			res.Inconclusive = err.Error()
			return
		}
		s, _ := th.Subscribe(WithBufferSize(1024))
		ths, subs = append(ths, th), append(subs, s)
	}
	// a bystander that stays connected and subscribed the whole time
	n.addPeer(9, GossipSubID_v12, 0, nil)
	for _, tn := range topics {
		n.recv(9, vfSubRPC(tn, true))
		n.recv(9, vfGraftRPC(tn))
	}
	outUp := map[int]bool{}
	inUp := map[int]bool{}
	lastIP := map[int]int{}
	afterOutClose, crossed, lateValidation := false, false, false
	var openOrder []string
	seq := uint64(300)
	blacklisted := map[int]bool{}
	lastSlow := map[int]time.Time{} // when the peer last sent a message whose validation takes 3 s
	proto := func(p int) int { return c.Protos[p-1] }

	inFlight := map[int]bool{} // a validation of the peer's message was still running when a stream of it closed for the last time
	noteClose := func(p int) {
		// a stream-close event removes the gater entry if it exists then; a verdict that arrives later re-creates it
		at, ok := lastSlow[p]
		inFlight[p] = ok && time.Since(at) < 3100*time.Millisecond
	}
	for _, op := range c.Ops {
		pr := vfProto(proto(op.P))
		topic := topics[op.T]
		if !outUp[op.P] && inUp[op.P] {
			switch op.Op {
			case "sub", "unsub", "graft", "prune", "ihave", "iwant", "idontwant", "ext", "partial", "testext", "pub", "pubbad", "pubslow", "pubreject":
				afterOutClose = true // an RPC on an inbound stream that outlives the outbound one
			}
		}
		rpcOK := inUp[op.P] // RPCs arrive on the peer's stream to us
		switch op.Op {
		case "adv":
			time.Sleep(time.Duration(op.N) * time.Millisecond)
		case "hb":
			time.Sleep(1100 * time.Millisecond)
		case "out+":
			if !outUp[op.P] && !blacklisted[op.P] {
				// the peer may come back from another address (op.T picks one of two)
				n.addPeer(op.P, pr, 0, []vfConnSpec{{Out: true, IP: fmt.Sprintf("10.%d.0.%d", 1+op.T, op.P), Stream: true}})
				if lastIP[op.P] != 0 && lastIP[op.P] != 1+op.T {
					res.label("reconnect-from-another-address")
				}
				lastIP[op.P] = 1 + op.T
				outUp[op.P] = n.fakes[op.P].Up
				openOrder = append(openOrder, fmt.Sprintf("out%d", op.P))
			}
		case "out-":
			if outUp[op.P] {
				n.killPeer(op.P, !inUp[op.P]) // the connection goes with the last stream
				outUp[op.P] = false
				noteClose(op.P)
				if len(openOrder) > 0 && openOrder[0] != fmt.Sprintf("out%d", op.P) {
					crossed = true
				}
			}
		case "out-keep":
			if outUp[op.P] {
				n.killPeer(op.P, false) // stream reset, connection stays: the node tries to reopen (and fails on the stub host)
				outUp[op.P] = false
				noteClose(op.P)
				res.label("outbound-reset-connection-kept")
			}
		case "flap":
			// the remote resets our outbound stream again and again while the connection stays up
			for k := 0; k < op.N && !blacklisted[op.P]; k++ {
				if !outUp[op.P] {
					n.addPeer(op.P, pr, 0, nil)
					outUp[op.P] = n.fakes[op.P].Up
				}
				if !outUp[op.P] {
					break // a reopening attempt of the node is still pending
				}
				n.killPeer(op.P, false)
				outUp[op.P] = false
				noteClose(op.P)
				// the node retries after a back-off of at most 10 s; on the stub host the retry fails and the node gives
				// up on that attempt before the remote resets the next stream
				time.Sleep(11 * time.Second)
				n.settle()
			}
			res.label("outbound-flapping")
		case "in+":
			if !inUp[op.P] {
				n.openInbound(op.P, pr)
				inUp[op.P] = true
				openOrder = append(openOrder, fmt.Sprintf("in%d", op.P))
			}
		case "in-":
			if inUp[op.P] {
				n.closeInbound(op.P, pr)
				inUp[op.P] = false
				noteClose(op.P)
				if !outUp[op.P] {
					n.eval(func() { n.h.net.setConns(vfPeer(op.P).ID, nil) })
				}
			}
		case "blacklist":
			hadQueue := false
			n.eval(func() { _, hadQueue = n.ps.peers[vfPeer(op.P).ID] })
			n.ps.BlacklistPeer(vfPeer(op.P).ID)
			n.settle()
			if hadQueue {
				noteClose(op.P) // only then does the router hear of a closed stream
			}
			blacklisted[op.P] = true
			outUp[op.P] = false
			res.label("blacklisted")
		case "lpub":
			_ = ths[op.T].Publish(n.ctx, []byte(fmt.Sprintf("local-%d", seq)))
			seq++
		default:
			if !rpcOK {
				continue
			}
			switch op.Op {
			case "sub":
				n.recv(op.P, vfSubRPC(topic, true))
			case "unsub":
				n.recv(op.P, vfSubRPC(topic, false))
			case "graft":
				n.recv(op.P, vfGraftRPC(topic))
			case "prune":
				n.recv(op.P, vfPruneRPC(topic, 2, nil))
			case "ihave":
				n.recv(op.P, &RPC{RPC: pb.RPC{Control: &pb.ControlMessage{Ihave: []*pb.ControlIHave{{TopicID: &topic, MessageIDs: []string{fmt.Sprintf("x%d", seq)}}}}}})
				seq++
			case "iwant":
				n.recv(op.P, &RPC{RPC: pb.RPC{Control: &pb.ControlMessage{Iwant: []*pb.ControlIWant{{MessageIDs: []string{"nothing"}}}}}})
			case "idontwant":
				n.recv(op.P, &RPC{RPC: pb.RPC{Control: &pb.ControlMessage{Idontwant: []*pb.ControlIDontWant{{MessageIDs: []string{fmt.Sprintf("y%d", seq)}}}}}})
				seq++
			case "ext":
				tr := true
				n.recv(op.P, &RPC{RPC: pb.RPC{Control: &pb.ControlMessage{Extensions: &pb.ControlExtensions{PartialMessages: &tr, TestExtension: &tr}}}})
			case "partial":
				tn := topics[0]
				n.recv(op.P, &RPC{RPC: pb.RPC{Partial: &pb.PartialMessagesExtension{TopicID: &tn, GroupID: []byte(fmt.Sprintf("g%d", op.T)), PartsMetadata: []byte{1}}}})
			case "testext":
				n.recv(op.P, &RPC{RPC: pb.RPC{TestExtension: &pb.TestExtension{}}})
			case "pub", "pubslow", "pubreject", "pubbad":
				seq++
				prefix := map[string]string{"pub": "fine", "pubslow": "slow", "pubreject": "reject", "pubbad": "fine"}[op.Op]
				m := vfSignedMsg(vfPeer(op.P), topic, seq, []byte(fmt.Sprintf("%s-%d", prefix, seq)))
				if op.Op == "pubbad" {
					m.Data = append(m.Data, '!')
				}
				if op.Op == "pubslow" {
					lateValidation = true
					lastSlow[op.P] = time.Now()
				}
				n.recv(op.P, vfMsgRPC(m))
				if op.Op != "pubslow" {
					n.settle() // its validation is over before anything else happens; "pubslow" is the one that stays in flight
				}
			}
		}
		n.drain()
	}
	// final disconnect: everything that is still open closes
	for p := 1; p <= len(c.Protos); p++ {
		if inUp[p] || outUp[p] {
			noteClose(p)
		}
		if inUp[p] {
			n.closeInbound(p, vfProto(proto(p)))
		}
		if outUp[p] {
			n.killPeer(p, true)
		}
		n.eval(func() { n.h.net.setConns(vfPeer(p).ID, nil) })
	}
	// retention: score retention 20 s, prune back-off 10 s + sweep every 15 heartbeats, seen TTL 30 s + 60 s sweep, promise
	// follow-up 3 s, gater retention 20 s + decay tick, slow validation 3 s, dead-peer back-off 10 min + 1 min clean-up
	wait := 3 * time.Minute
	if res := n; res != nil {
		var backoffEntries int
		n.eval(func() { n.ps.deadPeerBackoff.mu.Lock(); backoffEntries = len(n.ps.deadPeerBackoff.info); n.ps.deadPeerBackoff.mu.Unlock() })
		if backoffEntries > 0 {
			wait = 12 * time.Minute
		}
	}
	for waited := time.Duration(0); waited < wait; waited += 10 * time.Second {
		time.Sleep(10 * time.Second)
		n.drain()
		for _, s := range subs {
			for len(s.ch) > 0 {
				<-s.ch
			}
		}
	}
	n.settle()

	for p := 1; p <= len(c.Protos); p++ {
		pid := vfPeer(p).ID
		where := func(format string, a ...any) string { return fmt.Sprintf(format, a...) }
		n.eval(func() {
			ps, gs := n.ps, n.gs
			chk := func(present bool, key, what string) {
				if present {
					res.violate("C13/leak:"+key, p, "peer %d (%s) is still in %s after it disconnected and the retention periods elapsed", p, vfProto(proto(p)), what)
				}
			}
			_, ok := ps.peers[pid]
			chk(ok, "pubsub.peers", "the outbound queue map")
			for tn, m := range ps.topics {
				_, ok := m[pid]
				chk(ok, "pubsub.topics", where("the members of %s", tn))
			}
			ps.inboundStreamsMx.Lock()
			_, ok = ps.inboundStreams[pid]
			ps.inboundStreamsMx.Unlock()
			chk(ok, "pubsub.inboundStreams", "the inbound stream map")
			_, ok = ps.peerDeadPend[pid]
			chk(ok, "pubsub.peerDeadPend", "the pending dead-peer set")
			_, ok = ps.newPeersPend[pid]
			chk(ok, "pubsub.newPeersPend", "the pending new-peer set")
			ps.deadPeerBackoff.mu.Lock()
			_, ok = ps.deadPeerBackoff.info[pid]
			ps.deadPeerBackoff.mu.Unlock()
			chk(ok, "pubsub.deadPeerBackoff", "the dead-peer back-off table")
			_, ok = gs.peers[pid]
			chk(ok, "gossipsub.peers", "the router's peer map")
			for tn, m := range gs.mesh {
				_, ok := m[pid]
				chk(ok, "gossipsub.mesh", where("the mesh of %s", tn))
			}
			for tn, m := range gs.fanout {
				_, ok := m[pid]
				chk(ok, "gossipsub.fanout", where("the fan-out of %s", tn))
			}
			for tn, m := range gs.backoff {
				_, ok := m[pid]
				chk(ok, "gossipsub.backoff", where("the back-off table of %s", tn))
			}
			_, ok = gs.gossip[pid]
			chk(ok, "gossipsub.gossip", "pending gossip")
			_, ok = gs.control[pid]
			chk(ok, "gossipsub.control", "pending control")
			_, ok = gs.outbound[pid]
			chk(ok, "gossipsub.outbound", "the direction cache")
			_, ok = gs.unwanted[pid]
			chk(ok, "gossipsub.unwanted", "the IDONTWANT table")
			_, ok = gs.peerhave[pid]
			chk(ok, "gossipsub.peerhave", "the IHAVE counters")
			_, ok = gs.iasked[pid]
			chk(ok, "gossipsub.iasked", "the IWANT counters")
			_, ok = gs.peerdontwant[pid]
			chk(ok, "gossipsub.peerdontwant", "the IDONTWANT counters")
			_, ok = gs.extensions.peerExtensions[pid]
			chk(ok, "extensions.peerExtensions", "the received-extensions map")
			_, ok = gs.extensions.sentExtensions[pid]
			chk(ok, "extensions.sentExtensions", "the sent-extensions set")
			gs.score.Lock()
			_, ok = gs.score.peerStats[pid]
			gs.score.Unlock()
			chk(ok, "score.peerStats", "the score statistics")
			gs.gate.Lock()
			_, ok = gs.gate.peerStats[pid]
			gs.gate.Unlock()
			if inFlight[p] {
				// the validation verdict arrived after the last stream had closed: classified separately (known finding)
				chk(ok, "gater.peerStats:validation-after-disconnect", "the gater statistics (its message was still being validated when it disconnected)")
			} else {
				chk(ok, "gater.peerStats", "the gater statistics")
			}
			gs.gossipTracer.Lock()
			_, ok = gs.gossipTracer.peerPromises[pid]
			gs.gossipTracer.Unlock()
			chk(ok, "gossipTracer.peerPromises", "the IWANT promise table")
			// anything else, anywhere
			if len(res.Viols) == 0 {
				for _, h := range vfFindPeer(ps, pid) {
					if c.Direct && p == 1 && vfWalkKey(h) == "ps.rt.direct" {
						continue // the configured direct-peer set is configuration, not peer state
					}
					if blacklisted[p] && vfWalkKey(h) == "ps.blacklist" {
						continue // so is the blacklist
					}
					if inFlight[p] && vfWalkKey(h) == "ps.rt.gate.peerStats" {
						continue // reported above under its own key
					}
					res.violate("C13/leak:walk:"+vfWalkKey(h), p, "peer %d (%s) is still referenced at %s", p, vfProto(proto(p)), h)
				}
			}
		})
		for _, tag := range n.h.cm.tagsOf(pid) {
			if tag == "pubsub:<direct>" && c.Direct && p == 1 {
				continue // configuration, not peer state
			}
			res.violate("C13/leak:connmgr-protection", p, "peer %d is still protected in the connection manager under %q", p, tag)
		}
	}
	if os.Getenv("VF_DEBUG") != "" && len(res.Viols) > 0 {
		for _, e := range n.raw.snapshot() {
			if e.Kind == "send" || e.Kind == "recv" || e.Kind == "drop" {
				continue
			}
			fmt.Printf("DEBUG %8v %-10s peer=%d topic=%s msg=%q reason=%s\n", e.At, e.Kind, n.byID[e.Peer], e.Topic, e.MsgID, e.Reason)
		}
	}
	res.NT = afterOutClose || crossed || lateValidation
	if afterOutClose {
		res.label("rpc-after-outbound-close")
	}
	if crossed {
		res.label("closed-in-other-order-than-opened")
	}
	if lateValidation {
		res.label("validation-may-outlive-connection")
	}
	for _, pr := range c.Protos {
		res.label("proto:" + string(vfProto(pr)))
	}
}

// vfWalkKey turns a walk path into a stable classification key (field names only).
func vfWalkKey(path string) string {
	out := make([]byte, 0, len(path))
	depth := 0
	for i := 0; i < len(path); i++ {
		switch path[i] {
		case '[', '(':
			depth++
		case ']', ')':
			depth--
		default:
			if depth == 0 {
				out = append(out, path[i])
			}
		}
	}
	return string(out)
}

func TestVfC13Reclaim(t *testing.T) {
	vfCheck(t, "C13", c13Gen, c13Run)
}
