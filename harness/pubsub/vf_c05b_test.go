package pubsub

// C05 (DD part): announcements against full outbound queues and their retries, the hello packet of peers that
// arrive mid-history, and what a subscription returns after Cancel. Direct-driven node, fake peers whose queues
// (capacity 1-3) the harness drains only when the history says so.

import (
	"context"
	"errors"
	"fmt"
	"strings"
	"testing"
	"time"

	pb "github.com/libp2p/go-libp2p-pubsub/pb"
	"pgregory.net/rapid"
)

type c05bCase struct {
	Router string  `json:"router"`
	Queue  int     `json:"queue"`
	Buf    int     `json:"buf"` // subscription buffer size
	Ops    []c05Op `json:"ops"`
}

func c05bGen(rt *rapid.T) c05bCase {
	c := c05bCase{Router: rapid.SampledFrom([]string{"gossipsub", "floodsub", "randomsub"}).Draw(rt, "router"),
		Queue: rapid.IntRange(1, 3).Draw(rt, "queue"), Buf: rapid.SampledFrom([]int{1, 2, 4, 32}).Draw(rt, "buf")}
	kinds := []string{"sub", "sub", "cancel", "cancel", "relay", "unrelay", "unrelay2", "addpeer", "addpeer", "drain", "drain", "wait", "kill", "pub", "pub", "quiet", "close"}
	n := rapid.IntRange(1, 30).Draw(rt, "nops")
	for i := 0; i < n; i++ {
		op := c05Op{Kind: rapid.SampledFrom(kinds).Draw(rt, "kind"), B: rapid.IntRange(1, 3).Draw(rt, "peer"), T: rapid.IntRange(0, 1).Draw(rt, "t"),
			I: rapid.IntRange(0, 5).Draw(rt, "i"), F: rapid.IntRange(0, 5).Draw(rt, "f") == 0}
		if op.Kind == "wait" {
			op.Ms = rapid.SampledFrom([]int{1, 100, 400, 900, 1100, 2500}).Draw(rt, "ms")
		}
		c.Ops = append(c.Ops, op)
	}
	return c
}

func c05bRun(t *testing.T, c c05bCase) (res vfResult) {
	msg := vfBubble(t, func() { c05bRunInBubble(t, c, &res) })
	if msg != "" {
		if strings.Contains(msg, "deadlock") {
			res.Inconclusive = "bubble did not drain: " + msg
		} else {
			res.violate("C05/panic", -1, "%s", msg)
		}
	}
	return
}

func c05bRunInBubble(t *testing.T, c c05bCase, res *vfResult) {
	n, err := newVfNode(t, vfNodeCfg{Router: c.Router, ManualHeartbeat: true, Opts: []Option{WithMessageSignaturePolicy(StrictNoSign), WithMessageIdFn(func(m *pb.Message) string { return string(m.Data) })}})
	if err != nil {
		res.Inconclusive = err.Error()
		return
	}
	defer n.close()
	m := &c05Node{topics: map[int]*Topic{}, fanout: map[int]bool{}}
	// per subscription: the messages it must hold (published while it was live, up to its buffer)
	var expect [][]string
	view := map[int]map[string]bool{} // per fake peer: fold of what it has been sent so far
	up := map[int]bool{}
	full := false
	proto := vfProto(map[string]int{"gossipsub": 2, "floodsub": 0, "randomsub": 5}[c.Router])

	fold := func(p int, sent []vfSent) {
		for _, w := range sent {
			if w.To != p {
				continue
			}
			for _, so := range w.RPC.GetSubscriptions() {
				if so.GetSubscribe() {
					view[p][so.GetTopicid()] = true
				} else {
					delete(view[p], so.GetTopicid())
				}
			}
		}
	}
	drainAll := func() {
		for p := range up {
			if up[p] {
				fold(p, n.drainPeer(p))
			}
		}
	}
	quiet := func(step int) {
		// retries fire within 1 s each; a retry that meets a full queue again is rescheduled: drain in rounds
		for r := 0; r < 6; r++ {
			drainAll()
			time.Sleep(1100 * time.Millisecond)
			n.settle()
		}
		drainAll()
		for p, isUp := range up {
			if !isUp {
				continue
			}
			for tp := 0; tp < 2; tp++ {
				if view[p][vfTopic(tp)] != m.interest(tp) {
					res.violate("C05/peer-view", step, "peer %d's view of the node for %s (hello packet, then every announcement in queue order) is %v; the node's interest is %v", p, vfTopic(tp), view[p][vfTopic(tp)], m.interest(tp))
				}
			}
		}
	}
	topicOf := func(step, tp int, fo bool) *Topic {
		if th := m.topics[tp]; th != nil {
			return th
		}
		var opts []TopicOpt
		if fo && c.Router == "gossipsub" {
			opts = append(opts, FanoutOnly())
		} else {
			fo = false
		}
		th, err := n.ps.Join(vfTopic(tp), opts...)
		if err != nil {
			res.violate("C05/join-error", step, "Join failed: %v", err)
			return nil
		}
		m.topics[tp], m.fanout[tp] = th, fo
		return th
	}
	npub := 0
	for step, op := range c.Ops {
		if len(res.Viols) > 0 {
			break
		}
		switch op.Kind {
		case "sub":
			if th := topicOf(step, op.T, op.F); th != nil {
				sub, err := th.Subscribe(WithBufferSize(c.Buf))
				if err != nil {
					res.violate("C05/subscribe-error", step, "Subscribe failed: %v", err)
					break
				}
				m.subs, m.subT, m.subLive = append(m.subs, sub), append(m.subT, op.T), append(m.subLive, true)
				expect = append(expect, nil)
			}
		case "cancel":
			if len(m.subs) > 0 {
				i := op.I % len(m.subs)
				m.subs[i].Cancel()
				n.settle() // the cancellation has reached the event loop
				m.subLive[i] = false
			}
		case "relay":
			if th := topicOf(step, op.T, op.F); th != nil {
				r, err := th.Relay()
				if err != nil {
					if !(m.fanout[op.T] && errors.Is(err, ErrFanoutOnlyTopic)) {
						res.violate("C05/relay-error", step, "Relay failed: %v", err)
					}
					break
				}
				m.relays, m.relT, m.relLive = append(m.relays, r), append(m.relT, op.T), append(m.relLive, true)
			}
		case "unrelay", "unrelay2":
			if len(m.relays) > 0 {
				i := op.I % len(m.relays)
				m.relays[i]()
				if op.Kind == "unrelay2" {
					m.relays[i]()
				}
				n.settle()
				m.relLive[i] = false
			}
		case "close":
			if th := m.topics[op.T]; th != nil {
				if err := th.Close(); err == nil {
					if m.outstanding(op.T) {
						res.violate("C05/close-with-outstanding", step, "Topic.Close succeeded with live subscriptions or relays")
					}
					delete(m.topics, op.T)
					delete(m.fanout, op.T)
				}
			}
		case "addpeer":
			if !up[op.B] {
				hello := n.addPeer(op.B, proto, c.Queue, nil)
				if hello != nil {
					up[op.B] = true
					view[op.B] = map[string]bool{}
					fold(op.B, []vfSent{{To: op.B, RPC: hello}})
					n.recv(op.B, vfSubRPC(vfTopic(0), true))
				}
			}
		case "kill":
			if up[op.B] {
				n.killPeer(op.B, true)
				up[op.B] = false
			}
		case "drain":
			if up[op.B] {
				fold(op.B, n.drainPeer(op.B))
			}
		case "pub":
			if th := m.topics[op.T]; th != nil {
				data := fmt.Sprintf("m%d", npub)
				npub++
				if err := th.Publish(context.Background(), []byte(data)); err == nil {
					n.settle() // Publish hands the message to the event loop; delivery to the node's own subscriptions follows
					for i := range m.subs {
						if m.subLive[i] && m.subT[i] == op.T && len(expect[i]) < c.Buf {
							expect[i] = append(expect[i], data)
						}
					}
				}
			}
		case "wait":
			time.Sleep(time.Duration(op.Ms) * time.Millisecond)
			n.settle()
		case "quiet":
			quiet(step)
		}
		// was an announcement refused by a full queue?
		if !full {
			for _, e := range n.raw.snapshot() {
				if e.Kind == "drop" && e.RPC != nil && len(e.RPC.GetSubscriptions()) > 0 {
					full = true
					res.NT = true
					res.label("announcement-hit-full-queue")
					break
				}
			}
		}
	}
	if len(res.Viols) == 0 {
		quiet(len(c.Ops))
	}
	// what the subscriptions hold
	for i, sub := range m.subs {
		if len(res.Viols) > 0 {
			break
		}
		for k := 0; ; k++ {
			ctx, cancel := context.WithTimeout(context.Background(), time.Second)
			msg, err := sub.Next(ctx)
			cancel()
			if err == nil {
				if k >= len(expect[i]) || string(msg.Data) != expect[i][k] {
					res.violate("C05/subscription-content", len(c.Ops), "subscription %d: message %d is %q, expected %v", i, k, msg.Data, expect[i])
					break
				}
				continue
			}
			if k < len(expect[i]) {
				res.violate("C05/subscription-content", len(c.Ops), "subscription %d (live=%v): Next returned %v after %d messages, %d were buffered: %v", i, m.subLive[i], err, k, len(expect[i]), expect[i])
			} else if m.subLive[i] && !errors.Is(err, context.DeadlineExceeded) {
				res.violate("C05/next-on-live", len(c.Ops), "subscription %d is live and drained, Next returned %v", i, err)
			} else if !m.subLive[i] && !errors.Is(err, ErrSubscriptionCancelled) {
				res.violate("C05/next-after-cancel", len(c.Ops), "subscription %d was cancelled and is drained, Next returned %v instead of ErrSubscriptionCancelled", i, err)
			}
			if !m.subLive[i] && len(expect[i]) > 0 {
				res.label("cancelled-with-buffered-messages")
				res.NT = true
			}
			break
		}
	}
	res.label("router:" + c.Router)
}

func TestVfC05Announce(t *testing.T) {
	vfCheck(t, "C05", c05bGen, c05bRun)
}
