package pubsub

// C07 — mesh maintenance keeps every joined topic's mesh within its invariants (DESIGN §5 C07).
// Direct-driven gossipsub node, manual heartbeats, validity predicate over pre/post snapshots that never
// reproduces the random selection.

import (
	"fmt"
	"sort"
	"testing"
	"time"

	"github.com/libp2p/go-libp2p/core/peer"
	"pgregory.net/rapid"
)

type c07Params struct {
	D, Dlo, Dhi, Dscore, Dout int
	OppTicks, OppPeers        int
	PruneBackoffS, UnsubS     int
}

type c07Op struct {
	Op    string  `json:"op"`
	P     int     `json:"p,omitempty"`
	T     int     `json:"t,omitempty"`
	Proto int     `json:"proto,omitempty"`
	Out   bool    `json:"out,omitempty"`
	V     float64 `json:"v,omitempty"`
	Ms    int     `json:"ms,omitempty"`
	N     int     `json:"n,omitempty"`
}

type c07Case struct {
	Params  c07Params `json:"params"`
	Scoring bool      `json:"scoring"`
	OppThr  float64   `json:"opp_threshold"`
	Direct  []int     `json:"direct,omitempty"`
	Topics  int       `json:"topics"`
	Ops     []c07Op   `json:"ops"`
}

func c07GenParams(rt *rapid.T) c07Params {
	var p c07Params
	if rapid.IntRange(0, 11).Draw(rt, "bootstrapper") == 0 {
		// the all-zero bootstrapper set
		p.Dscore = 0
	} else {
		// validate(): Dlo <= D <= Dhi, Dscore <= Dhi, Dout < Dlo and Dout < D/2 (so D >= 2, Dlo >= 1)
		p.D = rapid.IntRange(2, 8).Draw(rt, "D")
		p.Dlo = rapid.IntRange(1, p.D).Draw(rt, "Dlo")
		p.Dhi = rapid.IntRange(p.D, p.D+5).Draw(rt, "Dhi")
		p.Dscore = rapid.IntRange(0, p.Dhi).Draw(rt, "Dscore")
		maxOut := p.Dlo - 1
		if p.D/2-1 < maxOut {
			maxOut = p.D/2 - 1
		}
		p.Dout = rapid.IntRange(0, maxOut).Draw(rt, "Dout")
	}
	p.OppTicks = rapid.SampledFrom([]int{1, 2, 3, 60}).Draw(rt, "oppTicks")
	p.OppPeers = rapid.IntRange(0, 3).Draw(rt, "oppPeers")
	p.PruneBackoffS = rapid.SampledFrom([]int{3, 10, 60}).Draw(rt, "pruneBackoff")
	p.UnsubS = rapid.SampledFrom([]int{2, 10}).Draw(rt, "unsubBackoff")
	return p
}

func (p c07Params) build() GossipSubParams {
	g := DefaultGossipSubParams()
	g.D, g.Dlo, g.Dhi, g.Dscore, g.Dout = p.D, p.Dlo, p.Dhi, p.Dscore, p.Dout
	g.OpportunisticGraftTicks, g.OpportunisticGraftPeers = uint64(p.OppTicks), p.OppPeers
	g.PruneBackoff, g.UnsubscribeBackoff = time.Duration(p.PruneBackoffS)*time.Second, time.Duration(p.UnsubS)*time.Second
	return g
}

func c07Gen(rt *rapid.T) c07Case {
	c := c07Case{Params: c07GenParams(rt), Scoring: rapid.IntRange(0, 3).Draw(rt, "scoring") > 0, Topics: rapid.IntRange(1, 2).Draw(rt, "topics")}
	c.OppThr = rapid.SampledFrom([]float64{0, 1, 3}).Draw(rt, "oppThr")
	npeers := rapid.IntRange(1, 24).Draw(rt, "npeers")
	for i := 0; i < rapid.IntRange(0, 2).Draw(rt, "ndirect"); i++ {
		c.Direct = append(c.Direct, rapid.IntRange(1, npeers).Draw(rt, "direct"))
	}
	n := rapid.IntRange(3, 45).Draw(rt, "nops")
	structured := rapid.IntRange(0, 3).Draw(rt, "structured") > 0
	twoTopics := false
	if structured {
		// construction: populate the topic, give peers scores, join, then mostly operations that meet a populated mesh
		t0 := 0
		c.Ops = append(c.Ops, c07Op{Op: "bulk", P: 1, T: t0, N: npeers, Proto: rapid.SampledFrom([]int{2, 2, 3, 4}).Draw(rt, "bproto"), Out: rapid.Bool().Draw(rt, "bout")})
		if c.Scoring {
			for i := 0; i < rapid.IntRange(0, npeers).Draw(rt, "nscores"); i++ {
				c.Ops = append(c.Ops, c07Op{Op: "score", P: rapid.IntRange(1, npeers).Draw(rt, "sp"), V: rapid.SampledFrom([]float64{-1, 0.5, 1, 2, 5}).Draw(rt, "sv")})
			}
		}
		if rapid.IntRange(0, 4).Draw(rt, "fanoutFirst") == 0 {
			c.Ops = append(c.Ops, c07Op{Op: "fanoutpub", T: t0})
		}
		c.Ops = append(c.Ops, c07Op{Op: "join", T: t0, N: rapid.IntRange(0, 1).Draw(rt, "jk")})
		// two populated topics sharing their peers: one heartbeat can graft a peer on one topic and prune it on the other
		if c.Topics == 2 && rapid.Bool().Draw(rt, "twoTopics") {
			twoTopics = true
			c.Ops = append(c.Ops, c07Op{Op: "bulk", P: 1, T: 1, N: npeers, Proto: 2, Out: rapid.Bool().Draw(rt, "bout2")})
			c.Ops = append(c.Ops, c07Op{Op: "join", T: 1})
			c.Ops = append(c.Ops, c07Op{Op: "graftmany", P: 1, T: rapid.IntRange(0, 1).Draw(rt, "overfull"), N: npeers})
		}
	}
	for i := 0; i < n; i++ {
		var op c07Op
		op.P = rapid.IntRange(1, npeers).Draw(rt, "p")
		op.T = rapid.IntRange(0, c.Topics-1).Draw(rt, "t")
		kinds := []string{"arrive+sub", "arrive+sub", "arrive+sub", "hb", "hb", "hb", "join", "graft", "prune", "score", "adv", "depart", "unsub", "leave", "sub", "arrive", "adddirect", "rmdirect", "fanoutpub", "bulk"}
		if structured {
			kinds = []string{"hb", "hb", "hb", "hb", "graftmany", "graftmany", "graft", "graft", "score", "score", "prune", "adv", "adv", "depart", "arrive+sub", "unsub", "leave", "join", "adddirect", "rmdirect", "fanoutpub"}
			if twoTopics {
				kinds = append(kinds, "prune", "prune", "graftmany", "hb")
			} else if rapid.IntRange(0, 3).Draw(rt, "t0") > 0 {
				op.T = 0
			}
		}
		op.Op = rapid.SampledFrom(kinds).Draw(rt, "op")
		switch op.Op {
		case "arrive", "arrive+sub", "bulk":
			op.Proto = rapid.SampledFrom([]int{2, 2, 2, 3, 4, 1, 0}).Draw(rt, "proto")
			op.Out = rapid.Bool().Draw(rt, "out")
			if op.Op == "bulk" {
				op.N = rapid.IntRange(2, 12).Draw(rt, "bulkN") // N consecutive peers arrive and subscribe
			}
		case "graftmany":
			op.N = rapid.IntRange(2, 12).Draw(rt, "graftN") // N consecutive peers send GRAFT
		case "score":
			op.V = rapid.SampledFrom([]float64{-2, -1, -0.5, 0, 0, 0.5, 1, 2, 5}).Draw(rt, "v")
		case "adv":
			op.Ms = rapid.OneOf(rapid.IntRange(0, 1500), rapid.IntRange(0, 12000), rapid.IntRange(0, 70000)).Draw(rt, "ms")
		case "prune":
			op.N = rapid.SampledFrom([]int{-1, 0, 1, 5, 30}).Draw(rt, "backoff")
		case "hb":
			op.N = rapid.SampledFrom([]int{1, 1, 1, 2, 15}).Draw(rt, "times")
		case "join":
			op.N = rapid.IntRange(0, 1).Draw(rt, "kind") // 0 subscribe, 1 relay
		}
		c.Ops = append(c.Ops, op)
	}
	c.Ops = append(c.Ops, c07Op{Op: "hb", N: 1})
	return c
}

// ---------------------------------------------------------------------------------------------------

type c07Snap struct {
	mesh     map[string]map[peer.ID]bool
	fanout   map[string]map[peer.ID]bool
	topicP   map[string]map[peer.ID]bool
	conn     map[peer.ID]bool // router knows the peer (outbound stream)
	mcap     map[peer.ID]bool // mesh-capable protocol
	queue    map[peer.ID]bool
	outbound map[peer.ID]bool
	direct   map[peer.ID]bool
	backoff  map[string]map[peer.ID]time.Time
	score    map[peer.ID]float64
	joined   map[string]bool
	tick     uint64
	now      time.Time
}

func copySet(m map[peer.ID]struct{}) map[peer.ID]bool {
	o := map[peer.ID]bool{}
	for p := range m {
		o[p] = true
	}
	return o
}

// c07Snapshot must run inside the event loop.
func c07Snapshot(n *vfNode) *c07Snap {
	gs, ps := n.gs, n.ps
	s := &c07Snap{mesh: map[string]map[peer.ID]bool{}, fanout: map[string]map[peer.ID]bool{}, topicP: map[string]map[peer.ID]bool{},
		conn: map[peer.ID]bool{}, mcap: map[peer.ID]bool{}, queue: map[peer.ID]bool{}, outbound: map[peer.ID]bool{}, direct: map[peer.ID]bool{},
		backoff: map[string]map[peer.ID]time.Time{}, score: map[peer.ID]float64{}, joined: map[string]bool{}, tick: gs.heartbeatTicks, now: time.Now()}
	for t, m := range gs.mesh {
		s.mesh[t] = copySet(m)
	}
	for t, m := range gs.fanout {
		s.fanout[t] = copySet(m)
	}
	for t, m := range ps.topics {
		s.topicP[t] = map[peer.ID]bool{}
		for p := range m {
			s.topicP[t][p] = true
		}
	}
	for p, proto := range gs.peers {
		s.conn[p] = true
		s.mcap[p] = vfIsMesh(proto)
	}
	for p := range ps.peers {
		s.queue[p] = true
	}
	for p, o := range gs.outbound {
		s.outbound[p] = o
	}
	for p := range gs.direct {
		s.direct[p] = true
	}
	for t, m := range gs.backoff {
		s.backoff[t] = map[peer.ID]time.Time{}
		for p, e := range m {
			s.backoff[t][p] = e
		}
	}
	for _, f := range n.fakes {
		s.score[f.ID] = gs.score.Score(f.ID)
	}
	for t, subs := range ps.mySubs {
		if len(subs) > 0 {
			if tp := ps.myTopics[t]; tp == nil || !tp.fanoutOnly {
				s.joined[t] = true
			}
		}
	}
	for t, r := range ps.myRelays {
		if r > 0 {
			s.joined[t] = true
		}
	}
	return s
}

const (
	c07Never = iota
	c07May
	c07Must
)

// eligibility of p as an own-initiative graft candidate for topic in state s, given the members it must not duplicate
func (s *c07Snap) eligible(p peer.ID, topic string, members map[peer.ID]bool) int {
	if !s.topicP[topic][p] || !s.mcap[p] || members[p] || s.direct[p] || s.score[p] < 0 {
		return c07Never
	}
	if e, ok := s.backoff[topic][p]; ok {
		if e.After(s.now) {
			return c07Never
		}
		return c07May // expired, not yet swept
	}
	return c07Must
}

func c07HasCtl(sent []vfSent, to int, topic string, graft bool) bool {
	for _, w := range sent {
		if w.To != to || w.RPC.Control == nil {
			continue
		}
		if graft {
			for _, g := range w.RPC.Control.Graft {
				if g.GetTopicID() == topic {
					return true
				}
			}
		} else {
			for _, g := range w.RPC.Control.Prune {
				if g.GetTopicID() == topic {
					return true
				}
			}
		}
	}
	return false
}

// c07CheckHeartbeat is the validity predicate of one heartbeat for one topic.
func c07CheckHeartbeat(res *vfResult, step int, n *vfNode, c *c07Case, pre, post *c07Snap, sent []vfSent, topic string) (changed bool) {
	P := c.Params
	preM, postM := pre.mesh[topic], post.mesh[topic]
	name := func(p peer.ID) string { return fmt.Sprintf("peer %d (score %g)", n.byID[p], pre.score[p]) }
	preP := map[peer.ID]bool{} // pre minus negatively scored
	for p := range preM {
		if pre.score[p] >= 0 {
			preP[p] = true
		}
	}
	tick := pre.tick + 1
	oppTick := tick%uint64(P.OppTicks) == 0

	var added, removed []peer.ID
	for p := range postM {
		if !preM[p] {
			added = append(added, p)
		}
	}
	for p := range preM {
		if !postM[p] {
			removed = append(removed, p)
		}
	}
	changed = len(added)+len(removed) > 0

	// no peer with negative score
	for p := range postM {
		if pre.score[p] < 0 {
			res.violate("C07/negative-in-mesh", step, "topic %s: %s is in the mesh after the heartbeat", topic, name(p))
		}
	}
	// never added: direct, backed off, negative (and only peers known to be in the topic on a mesh protocol)
	nMust, nMay, nMustOut := 0, 0, 0
	for p := range pre.topicP[topic] {
		switch pre.eligible(p, topic, preP) {
		case c07Must:
			nMust++
			if pre.outbound[p] {
				nMustOut++
			}
		case c07May:
			nMay++
		}
	}
	for _, p := range added {
		if pre.eligible(p, topic, preP) == c07Never {
			why := "not eligible"
			switch {
			case pre.direct[p]:
				why = "a direct peer"
			case pre.score[p] < 0:
				why = "negatively scored"
			case pre.backoff[topic][p].After(pre.now):
				why = fmt.Sprintf("backed off for another %v", pre.backoff[topic][p].Sub(pre.now))
			case !pre.topicP[topic][p]:
				why = "not known to be in the topic"
			case !pre.mcap[p]:
				why = "not a mesh-capable (gossipsub) peer"
			}
			res.violate("C07/ineligible-added", step, "topic %s: %s was grafted at the heartbeat although it is %s", topic, name(p), why)
		}
	}
	// removals need a reason
	for _, p := range removed {
		if pre.score[p] >= 0 && len(preP) < P.Dhi {
			res.violate("C07/unjustified-prune", step, "topic %s: %s removed although the mesh had %d < Dhi=%d members", topic, name(p), len(preP), P.Dhi)
		}
	}
	outCount := func(m map[peer.ID]bool) int {
		k := 0
		for p := range m {
			if pre.outbound[p] {
				k++
			}
		}
		return k
	}
	switch {
	case len(preP) < P.Dlo:
		res.label("hb:under-Dlo")
		for p := range preP {
			if !postM[p] {
				res.violate("C07/unjustified-prune", step, "topic %s: under-subscribed mesh lost %s", topic, name(p))
			}
		}
		want := len(preP) + nMust
		if want > P.D {
			want = P.D
		}
		if len(postM) < want {
			res.violate("C07/not-grown", step, "topic %s: mesh had %d < Dlo=%d members and %d eligible candidates, has %d after the heartbeat, expected at least %d (D=%d)",
				topic, len(preP), P.Dlo, nMust, len(postM), want, P.D)
		}
		upper := len(preP) + nMust + nMay
		if upper > P.D {
			upper = P.D
		}
		extra := P.Dout
		if oppTick {
			extra += P.OppPeers
		}
		if len(postM) > upper+extra {
			res.violate("C07/overgrown", step, "topic %s: mesh grew from %d to %d, more than D=%d plus the outbound quota %d and opportunistic %d", topic, len(preP), len(postM), P.D, P.Dout, P.OppPeers)
		}
	case len(preP) >= P.Dhi:
		res.label("hb:over-Dhi")
		kept := map[peer.ID]bool{}
		for p := range preP {
			if postM[p] {
				kept[p] = true
			}
		}
		if len(kept) != P.D {
			res.violate("C07/not-cut-to-D", step, "topic %s: mesh had %d >= Dhi=%d members, %d of them kept, expected exactly D=%d", topic, len(preP), P.Dhi, len(kept), P.D)
		}
		// the Dscore best are kept (peers tied with the first one outside the top are undecided)
		if P.Dscore > 0 && P.Dscore+P.Dout <= P.D && len(preP) > P.Dscore {
			var sc []float64
			for p := range preP {
				sc = append(sc, pre.score[p])
			}
			sort.Sort(sort.Reverse(sort.Float64Slice(sc)))
			cut := sc[P.Dscore] // best score outside the top Dscore
			for p := range preP {
				if pre.score[p] > cut && !postM[p] {
					res.violate("C07/top-scorer-pruned", step, "topic %s: %s is strictly among the Dscore=%d best of %d members and was pruned", topic, name(p), P.Dscore, len(preP))
				}
			}
			res.label("hb:dscore-judged")
		}
		avail := outCount(preP)
		need := P.Dout
		if avail < need {
			need = avail
		}
		if got := outCount(kept); got < need {
			res.violate("C07/outbound-quota", step, "topic %s: %d outbound members kept, %d available, Dout=%d", topic, got, avail, P.Dout)
		}
		c07CheckExtras(res, step, c, pre, topic, kept, added, oppTick, nMustOut, name)
	default:
		res.label("hb:steady")
		for p := range preP {
			if !postM[p] {
				res.violate("C07/unjustified-prune", step, "topic %s: mesh of %d members (Dlo=%d, Dhi=%d) lost %s", topic, len(preP), P.Dlo, P.Dhi, name(p))
			}
		}
		c07CheckExtras(res, step, c, pre, topic, preP, added, oppTick, nMustOut, name)
	}
	// protocol messages: GRAFT to every peer added, PRUNE to every still-connected peer removed
	for _, p := range added {
		if pre.queue[p] && !c07HasCtl(sent, n.byID[p], topic, true) {
			res.violate("C07/graft-not-sent", step, "topic %s: %s was added to the mesh but no GRAFT was queued for it", topic, name(p))
		}
	}
	for _, p := range removed {
		if pre.queue[p] && post.queue[p] && !c07HasCtl(sent, n.byID[p], topic, false) {
			res.violate("C07/prune-not-sent", step, "topic %s: %s was removed from the mesh but no PRUNE was queued for it", topic, name(p))
		}
	}
	return
}

// additions when the mesh already has >= Dlo members: only the outbound quota and opportunistic grafting
func c07CheckExtras(res *vfResult, step int, c *c07Case, pre *c07Snap, topic string, base map[peer.ID]bool, added []peer.ID, oppTick bool, nMustOut int, name func(peer.ID) string) {
	P := c.Params
	if len(base) < P.Dlo {
		return // cut below Dlo (D < Dlo cannot happen) – nothing to say
	}
	outHave := 0
	for p := range base {
		if pre.outbound[p] {
			outHave++
		}
	}
	quota := P.Dout - outHave
	if quota < 0 {
		quota = 0
	}
	nOut, nOther := 0, 0
	minScore := 0.0
	first := true
	for p := range base {
		if first || pre.score[p] < minScore {
			minScore, first = pre.score[p], false
		}
	}
	for _, p := range added {
		if pre.outbound[p] {
			nOut++
		} else {
			nOther++
			if !oppTick {
				res.violate("C07/unjustified-graft", step, "topic %s: %s grafted into a mesh of %d >= Dlo=%d members; it is not outbound and this is no opportunistic-graft tick", topic, name(p), len(base), P.Dlo)
			} else if !(pre.score[p] > minScore) {
				res.violate("C07/unjustified-graft", step, "topic %s: %s grafted opportunistically although it does not score above the mesh median", topic, name(p))
			}
		}
	}
	limit := quota
	if oppTick {
		limit += P.OppPeers
	}
	if len(added) > limit {
		res.violate("C07/overgrown", step, "topic %s: %d peers grafted into a mesh of %d >= Dlo members; the outbound quota allows %d and opportunistic grafting %d", topic, len(added), len(base), quota, P.OppPeers)
	}
	want := quota
	if nMustOut < want {
		want = nMustOut
	}
	if nOut < want {
		res.violate("C07/outbound-quota", step, "topic %s: mesh of %d has %d outbound members (Dout=%d), %d outbound candidates available, only %d grafted", topic, len(base), outHave, P.Dout, nMustOut, nOut)
	}
	if quota > 0 {
		res.label("hb:outbound-quota")
	}
	if nOther > 0 {
		res.label("hb:opportunistic-graft")
	}
}

// invariants that hold after every step
func c07CheckAlways(res *vfResult, step int, n *vfNode, s *c07Snap, what string) {
	for t, m := range s.mesh {
		if !s.joined[t] {
			res.violate("C07/mesh-without-join", step, "after %s: a mesh exists for %s which is not joined", what, t)
		}
		for p := range m {
			if !s.conn[p] {
				res.violate("C07/mesh-member-not-connected", step, "after %s: peer %d is in the mesh of %s but is not a connected peer of the router", what, n.byID[p], t)
			}
		}
	}
	for t := range s.joined {
		if _, ok := s.mesh[t]; !ok {
			res.violate("C07/join-without-mesh", step, "after %s: %s is joined but has no mesh", what, t)
		}
	}
	for t, m := range s.fanout {
		if s.joined[t] {
			res.violate("C07/fanout-for-joined", step, "after %s: fan-out state exists for joined topic %s", what, t)
		}
		for p := range m {
			if !s.conn[p] {
				res.violate("C07/fanout-member-not-connected", step, "after %s: peer %d is in the fan-out of %s but not connected", what, n.byID[p], t)
			}
		}
	}
}

func c07Run(t *testing.T, c c07Case) (res vfResult) {
	msg := vfBubble(t, func() { c07RunInBubble(t, c, &res) })
	if msg != "" {
		res.violate("C07/panic", -1, "%s", msg)
	}
	return
}

func c07RunInBubble(t *testing.T, c c07Case, res *vfResult) {
	app := map[peer.ID]float64{}
	gp := c.Params.build()
	if err := gp.validate(); err != nil {
		res.Inconclusive = "generated parameters refused: " + err.Error()
		return
	}
	var opts []Option
	if c.Scoring {
		opts = append(opts, WithPeerScore(&PeerScoreParams{AppSpecificScore: func(p peer.ID) float64 { return app[p] }, AppSpecificWeight: 1,
			DecayInterval: time.Second, DecayToZero: 0.01, Topics: map[string]*TopicScoreParams{}},
			&PeerScoreThresholds{GossipThreshold: -10, PublishThreshold: -20, GraylistThreshold: -30, AcceptPXThreshold: 100, OpportunisticGraftThreshold: c.OppThr}))
	}
	var direct []peer.AddrInfo
	for _, d := range c.Direct {
		direct = append(direct, peer.AddrInfo{ID: vfPeer(d).ID})
	}
	if len(direct) > 0 {
		opts = append(opts, WithDirectPeers(direct))
	}
	n, err := newVfNode(t, vfNodeCfg{Router: "gossipsub", Params: &gp, ManualHeartbeat: true, Opts: opts})
	if err != nil {
		res.Inconclusive = "constructor refused: " + err.Error()
		return
	}
	defer n.close()

	topics := map[int]*Topic{}
	subs := map[int][]*Subscription{}
	relays := map[int][]RelayCancelFunc{}
	handle := func(ti int) *Topic {
		if h, ok := topics[ti]; ok {
			return h
		}
		h, err := n.ps.Join(vfTopic(ti))
		if err != nil {
			panic(err)
		}
		topics[ti] = h
		return h
	}
	snap := func() *c07Snap {
		var s *c07Snap
		n.eval(func() { s = c07Snapshot(n) })
		return s
	}
	arrive := func(p, proto int, out bool) {
		n.addPeer(p, vfProto(proto), 0, []vfConnSpec{{Out: out, IP: fmt.Sprintf("10.2.0.%d", p), Stream: true}})
	}
	nontrivial := false
	for step, op := range c.Ops {
		topic := vfTopic(op.T)
		what := op.Op
		switch op.Op {
		case "arrive":
			arrive(op.P, op.Proto, op.Out)
		case "arrive+sub":
			arrive(op.P, op.Proto, op.Out)
			n.recv(op.P, vfSubRPC(topic, true))
		case "bulk":
			for k := 0; k < op.N; k++ {
				arrive(op.P+k, op.Proto, (op.Out && k%2 == 0) || (!op.Out && k%3 == 0))
				n.recv(op.P+k, vfSubRPC(topic, true))
			}
		case "sub":
			n.recv(op.P, vfSubRPC(topic, true)) // also from peers without an outbound stream
		case "unsub":
			n.recv(op.P, vfSubRPC(topic, false))
		case "depart":
			n.killPeer(op.P, true)
		case "score":
			app[vfPeer(op.P).ID] = op.V
		case "adv":
			time.Sleep(time.Duration(op.Ms) * time.Millisecond)
		case "adddirect":
			_ = n.ps.AddDirectPeer(peer.AddrInfo{ID: vfPeer(op.P).ID})
		case "rmdirect":
			_ = n.ps.RemoveDirectPeer(vfPeer(op.P).ID)
		case "fanoutpub":
			pre := snap()
			if pre.joined[topic] {
				continue
			}
			_ = handle(op.T).Publish(n.ctx, []byte(fmt.Sprintf("fan-%d", step)))
			n.settle()
		case "join":
			pre := snap()
			h := handle(op.T)
			if op.N == 0 {
				s, err := h.Subscribe()
				if err != nil {
					panic(err)
				}
				subs[op.T] = append(subs[op.T], s)
			} else {
				r, err := h.Relay()
				if err != nil {
					panic(err)
				}
				relays[op.T] = append(relays[op.T], r)
			}
			sent := n.drain()
			post := snap()
			if !pre.joined[topic] {
				// own-initiative additions on join: former fan-out members that stay eligible, topped up to D
				none := map[peer.ID]bool{}
				nMust := 0
				for p := range pre.topicP[topic] {
					if pre.eligible(p, topic, none) == c07Must {
						nMust++
					}
				}
				for p := range post.mesh[topic] {
					bad := pre.eligible(p, topic, none) == c07Never
					if pre.fanout[topic][p] {
						// a promoted fan-out member: only the reasons the statement names apply
						bad = pre.direct[p] || pre.score[p] < 0 || pre.backoff[topic][p].After(pre.now)
					}
					if bad {
						res.violate("C07/ineligible-added", step, "join of %s put peer %d (score %g, direct=%v, backed off=%v, in topic=%v) into the mesh", topic, n.byID[p], pre.score[p], pre.direct[p], pre.backoff[topic][p].After(pre.now), pre.topicP[topic][p])
					}
					if pre.queue[p] && !c07HasCtl(sent, n.byID[p], topic, true) {
						res.violate("C07/graft-not-sent", step, "join of %s added peer %d to the mesh without queueing a GRAFT", topic, n.byID[p])
					}
				}
				want := nMust
				if want > c.Params.D {
					want = c.Params.D
				}
				if len(post.mesh[topic]) < want {
					res.violate("C07/not-grown", step, "join of %s selected %d mesh members, %d eligible candidates, D=%d", topic, len(post.mesh[topic]), nMust, c.Params.D)
				}
				if len(post.mesh[topic]) > c.Params.D && len(post.mesh[topic]) > len(pre.fanout[topic]) {
					res.violate("C07/overgrown", step, "join of %s selected %d mesh members, D=%d", topic, len(post.mesh[topic]), c.Params.D)
				}
				if len(pre.fanout[topic]) > 0 {
					res.label("join-promotes-fanout")
				}
				if len(post.mesh[topic]) > 0 {
					nontrivial = nontrivial || len(post.mesh[topic]) >= c.Params.Dlo-1
				}
			}
		case "leave":
			pre := snap()
			if ss := subs[op.T]; len(ss) > 0 {
				ss[0].Cancel()
				subs[op.T] = ss[1:]
			} else if rr := relays[op.T]; len(rr) > 0 {
				rr[0]()
				relays[op.T] = rr[1:]
			} else {
				continue
			}
			sent := n.drain()
			post := snap()
			if pre.joined[topic] && !post.joined[topic] {
				for p := range pre.mesh[topic] {
					if pre.queue[p] && !c07HasCtl(sent, n.byID[p], topic, false) {
						res.violate("C07/prune-not-sent", step, "leaving %s: mesh member %d got no PRUNE", topic, n.byID[p])
					}
				}
				res.label("leave")
			}
		case "graft":
			pre := snap()
			n.recv(op.P, vfGraftRPC(topic))
			post := snap()
			p := vfPeer(op.P).ID
			if post.mesh[topic][p] && !pre.mesh[topic][p] {
				switch {
				case pre.direct[p]:
					res.violate("C07/ineligible-added", step, "GRAFT from direct peer %d was admitted to the mesh of %s", op.P, topic)
				case pre.score[p] < 0:
					res.violate("C07/ineligible-added", step, "GRAFT from peer %d with score %g was admitted to the mesh of %s", op.P, pre.score[p], topic)
				case pre.backoff[topic][p].After(pre.now):
					res.violate("C07/ineligible-added", step, "GRAFT from peer %d was admitted %v before its back-off expires", op.P, pre.backoff[topic][p].Sub(pre.now))
				}
				res.label("remote-graft-admitted")
			} else if pre.joined[topic] && !pre.mesh[topic][p] {
				res.label("remote-graft-refused")
				nontrivial = true
			}
		case "graftmany":
			for k := 0; k < op.N; k++ {
				n.recv(op.P+k, vfGraftRPC(topic))
			}
		case "prune":
			n.recv(op.P, vfPruneRPC(topic, op.N, nil))
		case "hb":
			for k := 0; k < op.N; k++ {
				pre := snap()
				n.heartbeat()
				sent := n.drain()
				post := snap()
				for tn := range pre.mesh {
					if c07CheckHeartbeat(res, step, n, &c, pre, post, sent, tn) && len(pre.mesh[tn]) >= c.Params.Dlo-1 {
						nontrivial = true
					}
				}
				c07CheckAlways(res, step, n, post, "heartbeat")
				if len(res.Viols) > 0 {
					return
				}
				if op.N > 1 {
					time.Sleep(time.Second)
				}
			}
		}
		n.drain()
		c07CheckAlways(res, step, n, snap(), what)
		if len(res.Viols) > 0 {
			return
		}
	}
	res.NT = nontrivial
}

func TestVfC07Mesh(t *testing.T) {
	vfCheck(t, "C07", c07Gen, c07Run)
}
