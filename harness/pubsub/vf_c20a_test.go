package pubsub

// C20 (a) — the sequence-number validator on an instrumented store, validated concurrently (DESIGN §5 C20a).

import (
	"context"
	"encoding/binary"
	"fmt"
	"log/slog"
	"runtime"
	"sync"
	"testing"

	pb "github.com/libp2p/go-libp2p-pubsub/pb"
	"github.com/libp2p/go-libp2p/core/peer"
	"pgregory.net/rapid"
)

type c20Msg struct {
	Author int `json:"a"`
	Seq    int `json:"s"`           // value
	Len    int `json:"len"`         // encoded length in bytes (8 = well formed)
	Max    bool `json:"max,omitempty"` // use 2^64-1
}

type c20aCase struct {
	Workers [][]c20Msg `json:"workers"` // each goroutine validates its list in order
	Barrier bool       `json:"barrier"` // first store reads of all goroutines overlap
	Yield   int        `json:"yield"`   // store yields the processor this many times inside Get/Put
}

func c20GenMsg(rt *rapid.T) c20Msg {
	m := c20Msg{Author: rapid.IntRange(1, 2).Draw(rt, "a"), Len: 8}
	m.Seq = rapid.OneOf(rapid.IntRange(0, 4), rapid.IntRange(0, 4), rapid.IntRange(0, 12)).Draw(rt, "s")
	switch rapid.IntRange(0, 19).Draw(rt, "shape") {
	case 0:
		m.Max = true
	case 1:
		m.Len = rapid.IntRange(0, 12).Draw(rt, "len")
	}
	return m
}

func c20aGen(rt *rapid.T) c20aCase {
	c := c20aCase{Barrier: rapid.Bool().Draw(rt, "barrier"), Yield: rapid.IntRange(0, 3).Draw(rt, "yield")}
	w := rapid.IntRange(1, 8).Draw(rt, "workers")
	for i := 0; i < w; i++ {
		n := rapid.IntRange(1, 6).Draw(rt, "n")
		var l []c20Msg
		for j := 0; j < n; j++ {
			l = append(l, c20GenMsg(rt))
		}
		c.Workers = append(c.Workers, l)
	}
	return c
}

func (m c20Msg) seqBytes() []byte {
	v := uint64(m.Seq)
	if m.Max {
		v = ^uint64(0)
	}
	var b [8]byte
	binary.BigEndian.PutUint64(b[:], v)
	switch {
	case m.Len == 8:
		return b[:]
	case m.Len < 8:
		return b[8-m.Len:] // truncated encoding (low-order bytes)
	default:
		return append(b[:], make([]byte, m.Len-8)...)
	}
}

func (m c20Msg) value() uint64 {
	if m.Max {
		return ^uint64(0)
	}
	return uint64(m.Seq)
}

type c20Store struct {
	mu      sync.Mutex
	vals    map[peer.ID][]byte
	puts    map[peer.ID][]uint64 // order of Put calls per author
	yield   int
	barrier *sync.WaitGroup
}

type c20CtxKey struct{}
type c20CallInfo struct{ first *bool }

func (s *c20Store) Get(ctx context.Context, p peer.ID) ([]byte, error) {
	if ci, ok := ctx.Value(c20CtxKey{}).(*c20CallInfo); ok && s.barrier != nil && *ci.first {
		*ci.first = false
		s.barrier.Done()
		s.barrier.Wait() // every goroutine's first read has started before any of them continues
	}
	for i := 0; i < s.yield; i++ {
		runtime.Gosched()
	}
	s.mu.Lock()
	defer s.mu.Unlock()
	return s.vals[p], nil
}

func (s *c20Store) Put(ctx context.Context, p peer.ID, v []byte) error {
	for i := 0; i < s.yield; i++ {
		runtime.Gosched()
	}
	s.mu.Lock()
	defer s.mu.Unlock()
	s.vals[p] = v
	if len(v) == 8 {
		s.puts[p] = append(s.puts[p], binary.BigEndian.Uint64(v))
	} else {
		s.puts[p] = append(s.puts[p], 0)
	}
	return nil
}

func c20aRun(_ *testing.T, c c20aCase) (res vfResult) {
	store := &c20Store{vals: map[peer.ID][]byte{}, puts: map[peer.ID][]uint64{}, yield: c.Yield}
	if c.Barrier {
		store.barrier = &sync.WaitGroup{}
		store.barrier.Add(len(c.Workers))
	}
	val := NewBasicSeqnoValidator(store, slog.Default())
	type verdict struct {
		m   c20Msg
		r   ValidationResult
		pan any
	}
	out := make([][]verdict, len(c.Workers))
	var wg sync.WaitGroup
	for w, list := range c.Workers {
		wg.Add(1)
		go func(w int, list []c20Msg) {
			defer wg.Done()
			first := true
			ctx := context.WithValue(context.Background(), c20CtxKey{}, &c20CallInfo{first: &first})
			for _, m := range list {
				func() {
					v := verdict{m: m}
					defer func() {
						if r := recover(); r != nil {
							v.pan = r
							if first && store.barrier != nil { // do not leave the others waiting
								first = false
								store.barrier.Done()
							}
						}
						out[w] = append(out[w], v)
					}()
					tn := "t"
					msg := &Message{Message: &pb.Message{From: []byte(vfPeer(m.Author).ID), Seqno: m.seqBytes(), Topic: &tn}}
					v.r = val(ctx, vfPeer(9).ID, msg)
				}()
			}
		}(w, list)
	}
	wg.Wait()

	// oracle
	accepted := map[int][]uint64{}
	maxWell := map[int]uint64{}
	overlap := false
	for w, vs := range out {
		for i, v := range vs {
			if v.pan != nil {
				res.violate("C20/panic", w, "validator panicked on a %d-byte sequence number: %v", v.m.Len, v.pan)
				continue
			}
			if v.m.Len >= 1 && v.m.Len <= 7 {
				// a wrong-length encoding has no sequence number: it must never be accepted
				if v.r == ValidationAccept {
					res.violate("C20/malformed-accepted", w, "a %d-byte sequence number was accepted", v.m.Len)
				}
				continue
			}
			val := v.m.value()
			if v.m.Len == 0 {
				val = 0
			}
			if v.r == ValidationAccept {
				accepted[v.m.Author] = append(accepted[v.m.Author], val)
			} else if v.r != ValidationIgnore {
				res.violate("C20/replay-not-ignored", w, "verdict %d for sequence number %d: a replay must be ignored (not penalised)", v.r, val)
			}
			if val > maxWell[v.m.Author] {
				maxWell[v.m.Author] = val
			}
			_ = i
		}
	}
	for a := 1; a <= 2; a++ {
		puts := store.puts[vfPeer(a).ID]
		for i := 1; i < len(puts); i++ {
			if puts[i] <= puts[i-1] {
				res.violate("C20/nonce-not-increasing", a, "author %d: stored nonce went %d -> %d (accepted sequence numbers must be strictly increasing in acceptance order)", a, puts[i-1], puts[i])
			}
		}
		acc := append([]uint64(nil), accepted[a]...)
		if len(acc) != len(puts) {
			res.violate("C20/accept-without-commit", a, "author %d: %d messages accepted but %d nonces stored", a, len(acc), len(puts))
		} else {
			seen := map[uint64]int{}
			for _, v := range acc {
				seen[v]++
			}
			for _, v := range puts {
				seen[v]--
			}
			for v, n := range seen {
				if n != 0 {
					res.violate("C20/accept-without-commit", a, "author %d: accepted values and stored nonces differ at %d", a, v)
				}
			}
			for v, n := range func() map[uint64]int {
				m := map[uint64]int{}
				for _, x := range acc {
					m[x]++
				}
				return m
			}() {
				if n > 1 {
					res.violate("C20/replay-accepted", a, "author %d: sequence number %d accepted %d times", a, v, n)
				}
			}
		}
		// completeness: the largest well-formed sequence number of an author (if positive) is accepted exactly once,
		// and the stored nonce ends as the highest accepted value
		if mx := maxWell[a]; mx > 0 {
			n := 0
			for _, v := range acc {
				if v == mx {
					n++
				}
			}
			if n == 0 {
				res.violate("C20/fresh-not-accepted", a, "author %d: highest sequence number %d was never accepted", a, mx)
			}
			fin := store.vals[vfPeer(a).ID]
			if len(fin) != 8 || binary.BigEndian.Uint64(fin) != mx {
				res.violate("C20/final-nonce", a, "author %d: stored nonce ends as %x, highest accepted is %d", a, fin, mx)
			}
		}
	}
	// classification: >= 2 goroutines hold different-or-equal sequence numbers of one author with an out-of-order pair
	byAuthor := map[int]int{}
	for _, l := range c.Workers {
		seen := map[int]bool{}
		for _, m := range l {
			if !seen[m.Author] {
				seen[m.Author] = true
				byAuthor[m.Author]++
			}
		}
	}
	for _, n := range byAuthor {
		if n >= 2 {
			overlap = true
		}
	}
	disorder := false
	for _, l := range c.Workers {
		for i := 1; i < len(l); i++ {
			if l[i].Author == l[i-1].Author && l[i].Seq <= l[i-1].Seq {
				disorder = true
			}
		}
	}
	res.NT = overlap && (disorder || len(c.Workers) >= 2)
	if overlap {
		res.label("authors-shared-between-goroutines")
	}
	if c.Barrier {
		res.label("forced-overlap")
	}
	res.label(fmt.Sprintf("workers:%s", vfBucket(len(c.Workers))))
	return
}

func TestVfC20aSeqno(t *testing.T) {
	vfCheck(t, "C20", c20aGen, c20aRun)
}
