package pubsub

// C17 (a) — the message cache alone: sliding windows of retrieval and advertisement (DESIGN §5 C17a).

import (
	"fmt"
	"sort"
	"testing"

	pb "github.com/libp2p/go-libp2p-pubsub/pb"
	"pgregory.net/rapid"
)

type c17aOp struct {
	Op string `json:"op"` // put | get | getfor | gossip | shift
	M  int    `json:"m,omitempty"`
	T  int    `json:"t,omitempty"`
	P  int    `json:"p,omitempty"`
}

type c17aCase struct {
	Gossip  int      `json:"gossip"`
	History int      `json:"history"`
	Ops     []c17aOp `json:"ops"`
}

func c17aGen(rt *rapid.T) c17aCase {
	var c c17aCase
	c.History = rapid.IntRange(1, 8).Draw(rt, "history")
	c.Gossip = rapid.IntRange(0, c.History).Draw(rt, "gossip")
	n := rapid.IntRange(1, 60).Draw(rt, "n")
	next := 0
	for i := 0; i < n; i++ {
		op := c17aOp{Op: rapid.SampledFrom([]string{"put", "put", "get", "getfor", "getfor", "gossip", "shift", "shift"}).Draw(rt, "op")}
		switch op.Op {
		case "put":
			op.M = next // every message is put once (the seen cache guarantees that inside its window)
			next++
			op.T = rapid.IntRange(0, 2).Draw(rt, "t")
		case "get", "getfor":
			hi := next
			if hi == 0 {
				hi = 1
			}
			op.M = rapid.IntRange(0, hi).Draw(rt, "m") // may name a message that does not exist (yet)
			op.P = rapid.IntRange(1, 3).Draw(rt, "p")
		case "gossip":
			op.T = rapid.IntRange(0, 3).Draw(rt, "t")
		}
		c.Ops = append(c.Ops, op)
	}
	return c
}

func c17aRun(_ *testing.T, c c17aCase) (res vfResult) {
	mc := NewMessageCache(c.Gossip, c.History)
	type mm struct {
		topic, age int
		msg        *Message
		tx         map[int]int
	}
	model := map[int]*mm{}
	mid := func(i int) string { return "author" + fmt.Sprintf("%08d", i) }
	edge := false
	ageOf := func(m *mm) int {
		if m == nil {
			return -1 // never put, or already shifted out
		}
		return m.age
	}
	for step, op := range c.Ops {
		switch op.Op {
		case "put":
			tn := fmt.Sprintf("t%d", op.T)
			msg := &Message{Message: &pb.Message{From: []byte("author"), Seqno: []byte(fmt.Sprintf("%08d", op.M)), Topic: &tn}}
			mc.Put(msg)
			model[op.M] = &mm{topic: op.T, msg: msg, tx: map[int]int{}}
		case "get":
			got, ok := mc.Get(mid(op.M))
			m, want := model[op.M]
			if want && (m.age == c.History-1) {
				edge = true
			}
			if ok != want {
				res.violate("C17/mcache-window", step, "Get(%d): present=%v, the history window (length %d, message age %v) says %v", op.M, ok, c.History, ageOf(m), want)
			} else if ok && got != m.msg {
				res.violate("C17/mcache-wrong-message", step, "Get(%d) returned a different message", op.M)
			}
		case "getfor":
			got, n, ok := mc.GetForPeer(mid(op.M), vfPeer(op.P).ID)
			m, want := model[op.M]
			if ok != want {
				res.violate("C17/mcache-window", step, "GetForPeer(%d): present=%v, the history window (length %d, message age %v) says %v", op.M, ok, c.History, ageOf(m), want)
			} else if ok {
				m.tx[op.P]++
				if got != m.msg {
					res.violate("C17/mcache-wrong-message", step, "GetForPeer(%d) returned a different message", op.M)
				}
				if n != m.tx[op.P] {
					res.violate("C17/mcache-txcount", step, "GetForPeer(%d, peer %d) reports %d transmissions, history says %d", op.M, op.P, n, m.tx[op.P])
				}
				if m.age == c.History-1 {
					edge = true
				}
			}
		case "gossip":
			got := append([]string(nil), mc.GetGossipIDs(fmt.Sprintf("t%d", op.T))...)
			var want []string
			for i, m := range model {
				if m.topic == op.T && m.age < c.Gossip {
					want = append(want, mid(i))
				}
				if m.topic == op.T && (m.age == c.Gossip || m.age == c.Gossip-1) {
					edge = true
				}
			}
			sort.Strings(got)
			sort.Strings(want)
			if a, b := vfMultisetDiff(want, got); a != 0 || b != 0 {
				res.violate("C17/mcache-gossip-window", step, "GetGossipIDs(t%d): %d id(s) missing, %d id(s) that are outside the gossip window (gossip=%d history=%d)", op.T, a, b, c.Gossip, c.History)
			}
		case "shift":
			mc.Shift()
			for i, m := range model {
				m.age++
				if m.age >= c.History {
					delete(model, i)
				}
			}
		}
		if len(res.Viols) > 0 {
			return
		}
	}
	// nothing lingers outside the window
	if len(mc.msgs) != len(model) {
		res.violate("C17/mcache-window", len(c.Ops), "cache holds %d messages, window model %d", len(mc.msgs), len(model))
	}
	res.NT = edge
	if edge {
		res.label("window-edge")
	}
	return
}


func TestVfC17aMcache(t *testing.T) {
	vfCheck(t, "C17", c17aGen, c17aRun)
}
