package pubsub

// C14 — after shutdown every API call returns and every library goroutine exits (DESIGN §5 C14).
// Concurrent generated workloads on a direct-driven node (with and without a mock discovery service); the
// constructor's context is cancelled at a generated point; afterwards every API is called again, often enough to
// overflow every internal buffer. synctest's quiescence detection is the oracle for "returns" and for
// "goroutines exit".

import (
	"context"
	"fmt"
	"runtime"
	"strings"
	"sync"
	"sync/atomic"
	"testing"
	"testing/synctest"
	"time"

	"github.com/libp2p/go-libp2p/core/discovery"
	"github.com/libp2p/go-libp2p/core/peer"
	"pgregory.net/rapid"
)

type c14Call struct {
	API string `json:"api"`
	T   int    `json:"t,omitempty"`
	I   int    `json:"i,omitempty"`
	N   int    `json:"n,omitempty"`
	Rep int    `json:"rep,omitempty"` // the call is issued Rep times back to back (a polling caller)
}

type c14Case struct {
	Router    string      `json:"router"`
	Discovery bool        `json:"discovery"`
	Workers   [][]c14Call `json:"workers"`
	CancelAt  int         `json:"cancel_at"` // >= 0: before the k-th call overall; < 0: at virtual time -CancelAt ms
	Spin      int         `json:"spin,omitempty"` // > 0: a separate goroutine yields Spin times, then cancels (lands inside other goroutines' round trips)
	Traffic   int         `json:"traffic"`   // messages with slow validation in flight when the workers start
	Post      []c14Call   `json:"post"`      // after shutdown: API and how many times in a row (N)
}

var c14APIs = []string{"join", "sub", "next", "cancelsub", "publish", "publishready", "batch", "relay", "unrelay", "regval", "unregval", "evh", "nextev", "cancelev",
	"listpeers", "gettopics", "blacklist", "adddirect", "rmdirect", "setscore", "feedback", "closetopic", "topicpeers"}

func c14GenCall(rt *rapid.T) c14Call {
	return c14Call{API: rapid.SampledFrom(c14APIs).Draw(rt, "api"), T: rapid.IntRange(0, 2).Draw(rt, "t"), I: rapid.IntRange(0, 5).Draw(rt, "i"), N: rapid.IntRange(1, 3).Draw(rt, "n"),
		Rep: rapid.SampledFrom([]int{1, 1, 1, 2, 5, 25}).Draw(rt, "rep")}
}

func c14Gen(rt *rapid.T) c14Case {
	c := c14Case{Router: rapid.SampledFrom([]string{"gossipsub", "gossipsub", "floodsub", "randomsub"}).Draw(rt, "router"), Discovery: rapid.Bool().Draw(rt, "disc"), Traffic: rapid.IntRange(0, 4).Draw(rt, "traffic")}
	total := 0
	if rapid.IntRange(0, 2).Draw(rt, "storm") == 0 {
		// polling storm: a few goroutines each hammering one API while the cancellation lands at a generated offset
		nw := rapid.IntRange(1, 4).Draw(rt, "stormWorkers")
		for w := 0; w < nw; w++ {
			call := c14GenCall(rt)
			call.Rep = rapid.SampledFrom([]int{10, 40, 150}).Draw(rt, "stormRep")
			c.Workers = append(c.Workers, []c14Call{{API: "join", T: call.T, N: 1, Rep: 1}, call})
		}
		c.Spin = rapid.IntRange(1, 400).Draw(rt, "spin")
		c.CancelAt = 1 << 20
	} else {
		nw := rapid.IntRange(1, 4).Draw(rt, "workers")
		for w := 0; w < nw; w++ {
			var l []c14Call
			for k := 0; k < rapid.IntRange(1, 10).Draw(rt, "ncalls"); k++ {
				l = append(l, c14GenCall(rt))
				total++
			}
			c.Workers = append(c.Workers, l)
		}
		if rapid.Bool().Draw(rt, "byTime") {
			c.CancelAt = -rapid.SampledFrom([]int{1, 5, 30, 120, 400}).Draw(rt, "ms")
		} else {
			c.CancelAt = rapid.IntRange(0, total).Draw(rt, "k")
		}
	}
	for _, api := range c14APIs {
		if rapid.IntRange(0, 2).Draw(rt, "post") > 0 {
			c.Post = append(c.Post, c14Call{API: api, T: rapid.IntRange(0, 2).Draw(rt, "pt"), I: rapid.IntRange(0, 5).Draw(rt, "pi"), N: rapid.SampledFrom([]int{1, 2, 3, 40}).Draw(rt, "pn")})
		}
	}
	return c
}

// mock discovery: advertises successfully, finds a few unreachable peers
type c14Disc struct{}

func (c14Disc) Advertise(ctx context.Context, ns string, opts ...discovery.Option) (time.Duration, error) {
	return time.Minute, nil
}

func (c14Disc) FindPeers(ctx context.Context, ns string, opts ...discovery.Option) (<-chan peer.AddrInfo, error) {
	ch := make(chan peer.AddrInfo, 2)
	ch <- peer.AddrInfo{ID: vfPeer(25).ID}
	close(ch)
	return ch, nil
}

type c14World struct {
	n      *vfNode
	mu     sync.Mutex
	topics map[int]*Topic
	guards map[int]*c14RW
	subs   []*Subscription
	relays []RelayCancelFunc
	evhs   []*TopicEventHandler
	panics []string
	held   []string // locks found held with no call in flight that could hold them
}

// c14RW is a channel-based reader/writer exclusion. Inside a synctest bubble a goroutine waiting for a sync.Mutex is
// not "durably blocked", so a call waiting for Topic.mux while its holder waits for virtual time (a slow validator,
// a readiness poll) would freeze the bubble's clock: an artefact of the harness, not of the library. The workers
// therefore serialise Topic.mux writers (Close, SetScoreParams) against its readers here, on channels, and check
// with TryLock that the real mutex is then free: a busy one has been left locked by a call that already returned.
type c14RW struct {
	gate chan struct{}
	tok  chan struct{}
}

const c14Readers = 64

func newC14RW() *c14RW {
	return &c14RW{gate: make(chan struct{}, 1), tok: make(chan struct{}, c14Readers)}
}

func (l *c14RW) rlock()   { l.tok <- struct{}{} }
func (l *c14RW) runlock() { <-l.tok }
func (l *c14RW) lock() {
	l.gate <- struct{}{}
	for i := 0; i < c14Readers; i++ {
		l.tok <- struct{}{}
	}
}
func (l *c14RW) unlock() {
	for i := 0; i < c14Readers; i++ {
		<-l.tok
	}
	<-l.gate
}

// onTopic runs f with the harness-level exclusion for the topic handle; it reports false (and does not call f) when
// the handle's own mutex is found left locked.
func (w *c14World) onTopic(t int, th *Topic, write bool, f func()) bool {
	w.mu.Lock()
	g := w.guards[t]
	if g == nil {
		g = newC14RW()
		w.guards[t] = g
	}
	w.mu.Unlock()
	if write {
		g.lock()
		defer g.unlock()
		if !th.mux.TryLock() {
			w.noteHeld(fmt.Sprintf("Topic(%s).mux", vfTopic(t)))
			return false
		}
		th.mux.Unlock()
	} else {
		g.rlock()
		defer g.runlock()
		if !th.mux.TryRLock() {
			w.noteHeld(fmt.Sprintf("Topic(%s).mux", vfTopic(t)))
			return false
		}
		th.mux.RUnlock()
	}
	f()
	return true
}

func (w *c14World) noteHeld(what string) {
	w.mu.Lock()
	w.held = append(w.held, what)
	w.mu.Unlock()
}

func (w *c14World) topic(t int) *Topic {
	w.mu.Lock()
	th := w.topics[t]
	w.mu.Unlock()
	if th != nil {
		return th
	}
	th, err := w.n.ps.Join(vfTopic(t))
	if err != nil {
		return nil
	}
	w.mu.Lock()
	if w.topics[t] == nil {
		w.topics[t] = th
	}
	th = w.topics[t]
	w.mu.Unlock()
	return th
}

// exec runs one API call; waiting calls get a caller context with a deadline (their contract is the caller's context)
func (w *c14World) exec(c c14Call) {
	defer func() {
		if r := recover(); r != nil {
			w.mu.Lock()
			w.panics = append(w.panics, fmt.Sprintf("%s: %v", c.API, r))
			w.mu.Unlock()
		}
	}()
	ps := w.n.ps
	short := func() (context.Context, context.CancelFunc) {
		return context.WithTimeout(context.Background(), 150*time.Millisecond)
	}
	pick := func(n int) int {
		if n == 0 {
			return -1
		}
		return c.I % n
	}
	switch c.API {
	case "join":
		w.topic(c.T)
	case "sub":
		if th := w.topic(c.T); th != nil {
			w.onTopic(c.T, th, false, func() {
				if s, err := th.Subscribe(); err == nil && s != nil {
					w.mu.Lock()
					w.subs = append(w.subs, s)
					w.mu.Unlock()
				}
			})
		}
	case "next":
		w.mu.Lock()
		i := pick(len(w.subs))
		var s *Subscription
		if i >= 0 {
			s = w.subs[i]
		}
		w.mu.Unlock()
		if s != nil {
			ctx, cancel := short()
			s.Next(ctx)
			cancel()
		}
	case "cancelsub":
		w.mu.Lock()
		i := pick(len(w.subs))
		var s *Subscription
		if i >= 0 {
			s = w.subs[i]
		}
		w.mu.Unlock()
		if s != nil {
			s.Cancel()
		}
	case "publish":
		if th := w.topic(c.T); th != nil {
			w.onTopic(c.T, th, false, func() {
				for k := 0; k < c.N; k++ {
					th.Publish(context.Background(), []byte(fmt.Sprintf("p-%d-%d", c.I, k)))
				}
			})
		}
	case "publishready":
		if th := w.topic(c.T); th != nil {
			w.onTopic(c.T, th, false, func() {
				ctx, cancel := short()
				th.Publish(ctx, []byte("ready"), WithReadiness(MinTopicSize(2)))
				cancel()
			})
		}
	case "batch":
		if th := w.topic(c.T); th != nil {
			var b MessageBatch
			w.onTopic(c.T, th, false, func() {
				for k := 0; k < c.N; k++ {
					th.AddToBatch(context.Background(), &b, []byte(fmt.Sprintf("b-%d-%d", c.I, k)))
				}
			})
			ps.PublishBatch(&b)
		}
	case "relay":
		if th := w.topic(c.T); th != nil {
			w.onTopic(c.T, th, false, func() {
				if r, err := th.Relay(); err == nil && r != nil {
					w.mu.Lock()
					w.relays = append(w.relays, r)
					w.mu.Unlock()
				}
			})
		}
	case "unrelay":
		w.mu.Lock()
		i := pick(len(w.relays))
		var r RelayCancelFunc
		if i >= 0 {
			r = w.relays[i]
		}
		w.mu.Unlock()
		if r != nil {
			r()
		}
	case "regval":
		ps.RegisterTopicValidator(vfTopic(c.T), func(ctx context.Context, p peer.ID, m *Message) bool { return true })
	case "unregval":
		ps.UnregisterTopicValidator(vfTopic(c.T))
	case "evh":
		if th := w.topic(c.T); th != nil {
			w.onTopic(c.T, th, false, func() {
				if h, err := th.EventHandler(); err == nil && h != nil {
					w.mu.Lock()
					w.evhs = append(w.evhs, h)
					w.mu.Unlock()
				}
			})
		}
	case "nextev":
		w.mu.Lock()
		i := pick(len(w.evhs))
		var h *TopicEventHandler
		if i >= 0 {
			h = w.evhs[i]
		}
		w.mu.Unlock()
		if h != nil {
			ctx, cancel := short()
			h.NextPeerEvent(ctx)
			cancel()
		}
	case "cancelev":
		w.mu.Lock()
		i := pick(len(w.evhs))
		var h *TopicEventHandler
		if i >= 0 {
			h = w.evhs[i]
		}
		w.mu.Unlock()
		if h != nil {
			h.Cancel()
		}
	case "listpeers":
		ps.ListPeers(vfTopic(c.T))
	case "topicpeers":
		if th := w.topic(c.T); th != nil {
			w.onTopic(c.T, th, false, func() { th.ListPeers() })
		}
	case "gettopics":
		ps.GetTopics()
	case "blacklist":
		ps.BlacklistPeer(vfPeer(10 + c.I).ID)
	case "adddirect":
		ps.AddDirectPeer(peer.AddrInfo{ID: vfPeer(10 + c.I).ID})
	case "rmdirect":
		ps.RemoveDirectPeer(vfPeer(10 + c.I).ID)
	case "setscore":
		if th := w.topic(c.T); th != nil {
			w.onTopic(c.T, th, true, func() { th.SetScoreParams(&TopicScoreParams{SkipAtomicValidation: true, TopicWeight: 1}) })
		}
	case "feedback":
		ps.PeerFeedback(vfTopic(c.T), vfPeer(1).ID, PeerFeedbackUsefulMessage)
	case "closetopic":
		if th := w.topic(c.T); th != nil {
			w.onTopic(c.T, th, true, func() { th.Close() })
		}
	}
}

func c14Run(t *testing.T, c c14Case) (res vfResult) {
	msg := vfBubble(t, func() { c14RunInBubble(t, c, &res) })
	if msg != "" {
		if strings.Contains(msg, "deadlock") {
			// the case is over, the context is cancelled, the host is closed: whatever is still blocked never exits
			res.violate("C14/goroutine-leak:"+c14LeakKey(msg), -1, "goroutines are still blocked after shutdown:\n%s", msg)
		} else {
			res.violate("C14/panic", -1, "%s", msg)
		}
	}
	return
}

// c14LockKey strips instance names from a lock path: "Topic(t1).mux" and "ps.myTopics[t1].mux" -> "Topic.mux".
func c14LockKey(p string) string {
	k := vfWalkKey(p) // instance names in [...] and (...) removed
	if strings.HasSuffix(k, "myTopics.mux") || strings.HasPrefix(k, "Topic") && strings.HasSuffix(k, ".mux") && !strings.Contains(k, "evtHandler") {
		return "Topic.mux"
	}
	if i := strings.IndexByte(k, '#'); i >= 0 {
		j := i + 1
		for j < len(k) && k[j] >= '0' && k[j] <= '9' {
			j++
		}
		k = k[:i] + k[j:]
	}
	return k
}

// c14LeakKey names the library function the first leaked goroutine sits in.
func c14LeakKey(dump string) string {
	for _, line := range strings.Split(dump, "\n") {
		if i := strings.Index(line, "go-libp2p-pubsub."); i >= 0 && !strings.Contains(line, "vf") && !strings.Contains(line, "c14") {
			fn := line[i+len("go-libp2p-pubsub."):]
			if strings.HasPrefix(fn, "(") {
				// method: (*T).name(
				if k := strings.Index(fn, ")."); k > 0 {
					rest := fn[k+2:]
					if e := strings.IndexAny(rest, "(."); e > 0 {
						rest = rest[:e]
					}
					return strings.Trim(fn[:k+1], "(*)") + "." + rest
				}
			}
			if j := strings.IndexAny(fn, "(."); j > 0 {
				return fn[:j]
			}
			return fn
		}
	}
	return "unknown"
}

func c14RunInBubble(t *testing.T, c c14Case, res *vfResult) {
	var opts []Option
	slowVal := func(ctx context.Context, p peer.ID, m *Message) bool {
		if strings.HasPrefix(string(m.Data), "slow") {
			select {
			case <-time.After(300 * time.Millisecond):
			case <-ctx.Done():
				return false
			}
		}
		return true
	}
	// two asynchronous validators per message, both honouring their context: on shutdown both report at once
	slowVal2 := func(ctx context.Context, p peer.ID, m *Message) bool {
		if strings.HasPrefix(string(m.Data), "slow") {
			select {
			case <-time.After(200 * time.Millisecond):
			case <-ctx.Done():
				return false
			}
		}
		return true
	}
	opts = append(opts, WithDefaultValidator(slowVal), WithDefaultValidator(slowVal2))
	if c.Discovery {
		opts = append(opts, WithDiscovery(c14Disc{}))
	}
	if c.Router == "gossipsub" {
		opts = append(opts, WithPeerScore(&PeerScoreParams{AppSpecificScore: func(peer.ID) float64 { return 0 }, DecayInterval: time.Second, DecayToZero: 0.01, Topics: map[string]*TopicScoreParams{}},
			&PeerScoreThresholds{}), WithPeerGater(NewPeerGaterParams(.1, .9, .999)))
	}
	gp := DefaultGossipSubParams()
	n, err := newVfNode(t, vfNodeCfg{Router: c.Router, Params: &gp, Opts: opts, Connectors: 2}) // automatic heartbeats, real connectors
	if err != nil {
		res.Inconclusive = err.Error()
		return
	}
	w := &c14World{n: n, topics: map[int]*Topic{}, guards: map[int]*c14RW{}}
	// some peers and some traffic whose validation is in flight
	for p := 1; p <= 3; p++ {
		n.addPeer(p, vfProto(map[string]int{"gossipsub": 2, "floodsub": 0, "randomsub": 5}[c.Router]), 0, nil)
		n.recv(p, vfSubRPC(vfTopic(0), true))
	}
	if c.Traffic > 0 {
		th := w.topic(0)
		if th != nil {
			if s, err := th.Subscribe(); err == nil {
				w.subs = append(w.subs, s)
			}
		}
		for k := 0; k < c.Traffic; k++ {
			n.recv(1+k%3, vfMsgRPC(vfSignedMsg(vfPeer(1+k%3), vfTopic(0), uint64(9000+k), []byte(fmt.Sprintf("slow-%d", k)))))
		}
	}

	var started int64
	var cancelOnce sync.Once
	inProgress := int32(0)
	atCancel := int32(-1)
	doCancel := func() {
		cancelOnce.Do(func() {
			atomic.StoreInt32(&atCancel, atomic.LoadInt32(&inProgress))
			n.cancel()
		})
	}
	type wstate struct {
		current atomic.Value // string
		done    atomic.Bool
	}
	states := make([]*wstate, len(c.Workers))
	for wi, calls := range c.Workers {
		st := &wstate{}
		st.current.Store("")
		states[wi] = st
		go func(calls []c14Call) {
			for _, call := range calls {
				k := atomic.AddInt64(&started, 1) - 1
				if c.CancelAt >= 0 && int(k) == c.CancelAt {
					doCancel()
				}
				st.current.Store(call.API)
				atomic.AddInt32(&inProgress, 1)
				for r := 0; r < max(call.Rep, 1); r++ {
					w.exec(call)
				}
				atomic.AddInt32(&inProgress, -1)
				st.current.Store("")
			}
			st.done.Store(true)
		}(calls)
	}
	if c.Spin > 0 {
		go func() {
			for i := 0; i < c.Spin; i++ {
				runtime.Gosched()
			}
			doCancel()
		}()
	}
	if c.CancelAt < 0 {
		go func() {
			time.Sleep(time.Duration(-c.CancelAt) * time.Millisecond)
			doCancel()
		}()
	}
	time.Sleep(60 * time.Second)
	doCancel() // a cancellation point beyond the last call: cancel now
	time.Sleep(60 * time.Second)
	synctest.Wait()
	for wi, st := range states {
		if !st.done.Load() {
			res.violate("C14/call-blocked:"+st.current.Load().(string), wi, "worker %d: a %s call that was in progress at or issued around the cancellation has not returned 60 s later", wi, st.current.Load())
		}
	}
	if k := atomic.LoadInt32(&atCancel); k > 0 {
		res.NT = true
		res.label("cancelled-with-calls-in-progress")
	}
	quiescentLocks := func(when string) {
		roots := map[string]any{"ps": n.ps}
		w.mu.Lock()
		for i, th := range w.topics {
			roots[fmt.Sprintf("Topic(%s)", vfTopic(i))] = th
		}
		for i, s := range w.subs {
			roots[fmt.Sprintf("Subscription#%d", i)] = s
		}
		for i, h := range w.evhs {
			roots[fmt.Sprintf("TopicEventHandler#%d", i)] = h
		}
		w.mu.Unlock()
		for _, p := range vfHeldLocks(roots) {
			res.violate("C14/lock-left-held:"+c14LockKey(p), -1, "%s, with no API call in flight and every goroutine parked, %s is still locked: the next call that needs it blocks forever", when, p)
		}
	}
	if len(res.Viols) == 0 {
		quiescentLocks("after shutdown")
	}
	// after shutdown: every API again, repeatedly
	type pstate struct {
		call c14Call
		k    atomic.Int32
		done atomic.Bool
	}
	var posts []*pstate
	if len(res.Viols) == 0 {
		for _, call := range c.Post {
			ps := &pstate{call: call}
			posts = append(posts, ps)
			go func() {
				for i := 0; i < ps.call.N; i++ {
					ps.k.Store(int32(i + 1))
					one := ps.call
					one.N = 1
					w.exec(one)
				}
				ps.done.Store(true)
			}()
		}
		time.Sleep(60 * time.Second)
		synctest.Wait()
		for _, ps := range posts {
			if !ps.done.Load() {
				res.violate("C14/call-blocked-after-shutdown:"+ps.call.API, 0, "%s: call %d of %d made after the context was cancelled has not returned 60 s later", ps.call.API, ps.k.Load(), ps.call.N)
			}
			if ps.call.N >= 40 {
				res.label("post-shutdown-x40:" + ps.call.API)
			}
		}
		if len(res.Viols) == 0 {
			quiescentLocks("after the post-shutdown calls")
		}
	}
	w.mu.Lock()
	for _, h := range w.held {
		res.violate("C14/lock-left-held:"+c14LockKey(h), -1, "%s was found locked by a call that had already returned (no call that takes it was in flight): later calls on it block forever", h)
	}
	w.mu.Unlock()
	w.mu.Lock()
	for _, p := range w.panics {
		res.violate("C14/panic:"+strings.SplitN(p, ":", 2)[0], 0, "API call panicked: %s", p)
	}
	w.mu.Unlock()
	if len(res.Viols) > 0 {
		// release what we can so that the report names the calls, not a wedged bubble
	}
	n.drainConnect()
	n.h.Close()
	res.label("router:" + c.Router)
	if c.Discovery {
		res.label("discovery")
	}
}

func TestVfC14Shutdown(t *testing.T) {
	vfCheck(t, "C14", c14Gen, c14Run)
}
