package pubsub

// C01 — complete exactly-once delivery in a connected network of correct nodes (DESIGN §5 C01).
// NET: 2-10 real nodes (mixed routers) on full libp2p hosts over simnet; generated roles (subscriber with 1-2
// subscriptions, relay, relay+subscriber, outside publisher), a generated connected overlay inside the degree bound
// where every random peer selection of the routers is exhaustive, rounds of churn repaired by construction so that
// the overlay stays connected, settle, publishes; every subscription of every node must receive every message of
// the round exactly once.

import (
	"os"
	"context"
	"crypto/sha256"
	"encoding/hex"
	"fmt"
	"sort"
	"strings"
	"testing"
	"time"

	pb "github.com/libp2p/go-libp2p-pubsub/pb"
	"pgregory.net/rapid"
)

type c01Op struct {
	Kind string `json:"k"` // sub cancel relay unrelay connect disconnect resub wait flap
	A    int    `json:"a"`
	B    int    `json:"b,omitempty"`
	Ms   int    `json:"ms,omitempty"`
}

type c01Pub struct {
	Node int `json:"node"`
	N    int `json:"n"`
}

type c01Round struct {
	Ops  []c01Op  `json:"ops"`
	Pubs []c01Pub `json:"pubs"`
	Warm int      `json:"warm,omitempty"` // the first publisher first sends this many messages one second apart (sustained gossip)
}

type c01Case struct {
	N       int        `json:"n"`
	Routers []string   `json:"routers"`
	Params  int        `json:"params"` // gossipsub parameter set
	Flood   bool       `json:"flood_publish"`
	Lat     []int      `json:"lat"`
	Rounds  []c01Round `json:"rounds"`
	Size    int        `json:"size"`            // payload size class: 0 small, 1 above the IDONTWANT threshold
	IDFn    int        `json:"idfn,omitempty"`  // 1: every node uses a content-based message ID with a long common prefix (namespaced IDs of about 50 bytes)
	Batch   bool       `json:"batch,omitempty"` // gossipsub publishers publish through one reused MessageBatch per node
}

// parameter sets: 0 = defaults; the small-degree sets make a node with more than Dhi neighbours prune, so that the
// pruned neighbours can only be reached through IHAVE / IWANT. Dlazy stays 6: with at most 6 mesh-capable topic
// neighbours per node every gossip emission is exhaustive whatever the mesh looks like.
func c01Params(i int) GossipSubParams {
	p := DefaultGossipSubParams()
	switch i {
	case 1:
		p.D, p.Dlo, p.Dhi, p.Dscore, p.Dout = 2, 1, 2, 1, 0
	case 2:
		p.D, p.Dlo, p.Dhi, p.Dscore, p.Dout = 4, 2, 5, 2, 1
	}
	return p
}

const c01MaxDeg = 6 // = Dlazy = RandomSubD

// abstract state shared by the generator and the interpreter
type c01State struct {
	n      int
	edge   map[[2]int]bool
	subs   []int // live subscriptions per node
	relays []int
}

func newC01State(n int) *c01State {
	return &c01State{n: n, edge: map[[2]int]bool{}, subs: make([]int, n), relays: make([]int, n)}
}

func c01E(a, b int) [2]int {
	if a > b {
		a, b = b, a
	}
	return [2]int{a, b}
}

func (s *c01State) interested(i int) bool { return s.subs[i] > 0 || s.relays[i] > 0 }
func (s *c01State) deg(i int) int {
	d := 0
	for e := range s.edge {
		if e[0] == i || e[1] == i {
			d++
		}
	}
	return d
}

// components of the overlay: the graph induced on interested nodes
func (s *c01State) components() [][]int {
	seen := make([]bool, s.n)
	var out [][]int
	for i := 0; i < s.n; i++ {
		if seen[i] || !s.interested(i) {
			continue
		}
		comp := []int{}
		stack := []int{i}
		seen[i] = true
		for len(stack) > 0 {
			x := stack[len(stack)-1]
			stack = stack[:len(stack)-1]
			comp = append(comp, x)
			for j := 0; j < s.n; j++ {
				if !seen[j] && s.interested(j) && s.edge[c01E(x, j)] {
					seen[j] = true
					stack = append(stack, j)
				}
			}
		}
		sort.Ints(comp)
		out = append(out, comp)
	}
	return out
}

func (s *c01State) apply(op c01Op) {
	switch op.Kind {
	case "sub":
		s.subs[op.A]++
	case "cancel":
		if s.subs[op.A] > 0 {
			s.subs[op.A]--
		}
	case "resub":
		// cancel the last subscription and subscribe again at once (inside the unsubscribe back-off): net effect none
	case "relay":
		s.relays[op.A]++
	case "unrelay":
		if s.relays[op.A] > 0 {
			s.relays[op.A]--
		}
	case "connect":
		if op.A != op.B {
			s.edge[c01E(op.A, op.B)] = true
		}
	case "disconnect":
		delete(s.edge, c01E(op.A, op.B))
	}
}

func c01Gen(rt *rapid.T) c01Case {
	c := c01Case{N: rapid.IntRange(2, 10).Draw(rt, "n"), Params: rapid.SampledFrom([]int{0, 0, 1, 1, 2}).Draw(rt, "params"),
		Flood: rapid.IntRange(0, 3).Draw(rt, "flood") > 0, Size: rapid.SampledFrom([]int{0, 0, 0, 1}).Draw(rt, "size")}
	c.IDFn = rapid.SampledFrom([]int{0, 0, 1}).Draw(rt, "idfn")
	c.Batch = rapid.IntRange(0, 3).Draw(rt, "batch") == 0
	mix := rapid.SampledFrom([]string{"gossipsub", "gossipsub", "mixed", "mixed", "floodsub", "randomsub"}).Draw(rt, "mix")
	for i := 0; i < c.N; i++ {
		r := mix
		if mix == "mixed" {
			r = rapid.SampledFrom([]string{"gossipsub", "gossipsub", "floodsub", "randomsub"}).Draw(rt, "router")
		}
		c.Routers = append(c.Routers, r)
	}
	for i := 0; i < c.N*c.N; i++ {
		c.Lat = append(c.Lat, rapid.SampledFrom([]int{1, 1, 2, 5, 20, 50}).Draw(rt, "lat"))
	}
	st := newC01State(c.N)
	emit := func(r *c01Round, op c01Op) {
		st.apply(op)
		r.Ops = append(r.Ops, op)
	}
	spare := func(i int) bool { return st.deg(i) < c01MaxDeg }
	// repair: the overlay (interested nodes) is connected, nobody exceeds the degree bound, every node has an edge
	repair := func(r *c01Round) {
		any := false
		for i := 0; i < c.N; i++ {
			any = any || st.interested(i)
		}
		if !any {
			emit(r, c01Op{Kind: "sub", A: rapid.IntRange(0, c.N-1).Draw(rt, "firstSub")})
		}
		for i := 0; i < c.N; i++ {
			for st.deg(i) > c01MaxDeg {
				var nb []int
				for j := 0; j < c.N; j++ {
					if st.edge[c01E(i, j)] {
						nb = append(nb, j)
					}
				}
				emit(r, c01Op{Kind: "disconnect", A: i, B: rapid.SampledFrom(nb).Draw(rt, "drop")})
			}
		}
		for guard := 0; guard < 4*c.N; guard++ {
			comps := st.components()
			if len(comps) <= 1 {
				break
			}
			// join the second component to the first; free a slot when both candidates are full
			a := rapid.SampledFrom(comps[0]).Draw(rt, "joinA")
			b := rapid.SampledFrom(comps[1]).Draw(rt, "joinB")
			for _, x := range []int{a, b} {
				if !spare(x) {
					// drop an edge to a node of the same component that keeps another path: simplest is an edge to a
					// non-interested node, else any edge (the loop reconnects what falls apart)
					var nb []int
					for j := 0; j < c.N; j++ {
						if st.edge[c01E(x, j)] {
							nb = append(nb, j)
						}
					}
					emit(r, c01Op{Kind: "disconnect", A: x, B: rapid.SampledFrom(nb).Draw(rt, "free")})
				}
			}
			emit(r, c01Op{Kind: "connect", A: a, B: b})
		}
		// outsiders are attached to the overlay
		var in []int
		for i := 0; i < c.N; i++ {
			if st.interested(i) {
				in = append(in, i)
			}
		}
		for i := 0; i < c.N; i++ {
			if st.interested(i) {
				continue
			}
			ok := false
			for _, j := range in {
				ok = ok || st.edge[c01E(i, j)]
			}
			if !ok {
				var cand []int
				for _, j := range in {
					if spare(j) {
						cand = append(cand, j)
					}
				}
				if len(cand) > 0 && spare(i) {
					emit(r, c01Op{Kind: "connect", A: i, B: rapid.SampledFrom(cand).Draw(rt, "attach")})
				}
			}
		}
	}
	genPubs := func(r *c01Round) {
		for k := 0; k < rapid.IntRange(1, 3).Draw(rt, "npub"); k++ {
			// publishers: anyone attached to the overlay
			var cand []int
			for i := 0; i < c.N; i++ {
				if st.interested(i) {
					cand = append(cand, i)
					continue
				}
				for j := 0; j < c.N; j++ {
					if st.edge[c01E(i, j)] && st.interested(j) {
						cand = append(cand, i)
						break
					}
				}
			}
			r.Pubs = append(r.Pubs, c01Pub{Node: rapid.SampledFrom(cand).Draw(rt, "publisher"), N: rapid.IntRange(1, 2).Draw(rt, "burst")})
		}
		if rapid.IntRange(0, 2).Draw(rt, "warm") == 0 {
			r.Warm = rapid.IntRange(11, 16).Draw(rt, "nwarm")
		}
	}
	// round 0: roles and a random overlay
	var r0 c01Round
	for i := 0; i < c.N; i++ {
		switch rapid.SampledFrom([]string{"sub", "sub", "sub2", "relay", "relaysub", "none"}).Draw(rt, "role") {
		case "sub":
			emit(&r0, c01Op{Kind: "sub", A: i})
		case "sub2":
			emit(&r0, c01Op{Kind: "sub", A: i})
			emit(&r0, c01Op{Kind: "sub", A: i})
		case "relay":
			emit(&r0, c01Op{Kind: "relay", A: i})
		case "relaysub":
			emit(&r0, c01Op{Kind: "relay", A: i})
			emit(&r0, c01Op{Kind: "sub", A: i})
		}
	}
	shape := rapid.SampledFrom([]string{"random", "random", "line", "star", "sparse"}).Draw(rt, "shape")
	for a := 0; a < c.N; a++ {
		for b := a + 1; b < c.N; b++ {
			want := false
			switch shape {
			case "random":
				want = rapid.IntRange(0, 2).Draw(rt, "edge") == 0
			case "sparse":
				want = rapid.IntRange(0, 5).Draw(rt, "edge") == 0
			case "line":
				want = b == a+1
			case "star":
				want = a == 0
			}
			if want && spare(a) && spare(b) {
				emit(&r0, c01Op{Kind: "connect", A: a, B: b})
			}
		}
	}
	repair(&r0)
	genPubs(&r0)
	c.Rounds = append(c.Rounds, r0)
	// churn rounds
	for k := 0; k < rapid.IntRange(0, 2).Draw(rt, "rounds"); k++ {
		var r c01Round
		for i := 0; i < rapid.IntRange(1, 6).Draw(rt, "nchurn"); i++ {
			op := c01Op{Kind: rapid.SampledFrom([]string{"sub", "cancel", "cancel", "resub", "relay", "unrelay", "connect", "disconnect", "disconnect", "wait", "flap"}).Draw(rt, "churn"),
				A: rapid.IntRange(0, c.N-1).Draw(rt, "a"), B: rapid.IntRange(0, c.N-1).Draw(rt, "b")}
			switch op.Kind {
			case "wait":
				op.Ms = rapid.SampledFrom([]int{100, 1500, 12000}).Draw(rt, "ms")
			case "connect":
				if op.A == op.B || !spare(op.A) || !spare(op.B) {
					continue
				}
			case "resub":
				if st.subs[op.A] == 0 {
					continue
				}
			case "flap":
				// an existing link goes down and comes back several times in a row (it stays part of the overlay)
				if !st.edge[c01E(op.A, op.B)] {
					continue
				}
				op.Ms = rapid.IntRange(1, 7).Draw(rt, "flaps")
			}
			emit(&r, op)
		}
		repair(&r)
		genPubs(&r)
		c.Rounds = append(c.Rounds, r)
	}
	return c
}

func c01Run(t *testing.T, c c01Case) (res vfResult) {
	msg := vfBubble(t, func() { c01RunInBubble(t, c, &res) })
	if msg != "" {
		if strings.Contains(msg, "deadlock") {
			res.Inconclusive = "bubble did not drain: " + msg
		} else {
			res.violate("C01/panic", -1, "%s", msg)
		}
	}
	return
}

func c01RunInBubble(t *testing.T, c c01Case, res *vfResult) {
	N := c.N
	s, err := newVfSim(t, N, func(a, b int) int { return c.Lat[(a*N+b)%len(c.Lat)] })
	if err != nil {
		res.Inconclusive = err.Error()
		return
	}
	defer s.close()
	for i := 0; i < N; i++ {
		var opts []Option
		if c.Routers[i] == "gossipsub" {
			opts = append(opts, WithGossipSubParams(c01Params(c.Params)), WithFloodPublish(c.Flood))
		}
		if c.IDFn == 1 {
			opts = append(opts, WithMessageIdFn(c01NamespacedID))
		}
		if err := s.start(i, c.Routers[i], opts...); err != nil {
			res.Inconclusive = err.Error()
			return
		}
	}
	const topic = "topic-0"
	st := newC01State(N)
	handles := make([]*Topic, N)
	subs := make([][]*Subscription, N)
	relays := make([][]RelayCancelFunc, N)
	handle := func(i int) *Topic {
		if handles[i] == nil {
			th, err := s.nodes[i].ps.Join(topic)
			if err != nil {
				res.Inconclusive = err.Error()
				return nil
			}
			handles[i] = th
		}
		return handles[i]
	}
	batches := make([]MessageBatch, N)
	pub := func(node int, th *Topic, data string) error {
		if c.Batch && c.Routers[node] == "gossipsub" {
			if err := th.AddToBatch(context.Background(), &batches[node], []byte(data)); err != nil {
				return err
			}
			return s.nodes[node].ps.PublishBatch(&batches[node])
		}
		return th.Publish(context.Background(), []byte(data))
	}
	if c.Batch {
		res.label("batch-publishing")
	}
	if c.IDFn == 1 {
		res.label("namespaced-content-ids")
	}
	pad := ""
	if c.Size == 1 {
		pad = strings.Repeat("x", 1500)
		res.label("large-messages")
	}
	seq := 0
	for ri, r := range c.Rounds {
		if res.Inconclusive != "" || len(res.Viols) > 0 {
			break
		}
		churn := false
		for _, op := range r.Ops {
			switch op.Kind {
			case "sub":
				th := handle(op.A)
				if th == nil {
					return
				}
				sub, err := th.Subscribe()
				if err != nil {
					res.Inconclusive = err.Error()
					return
				}
				subs[op.A] = append(subs[op.A], sub)
			case "cancel":
				if n := len(subs[op.A]); n > 0 {
					subs[op.A][n-1].Cancel()
					subs[op.A] = subs[op.A][:n-1]
				}
			case "resub":
				if n := len(subs[op.A]); n > 0 {
					subs[op.A][n-1].Cancel()
					s.wait(time.Duration(200+op.B*300) * time.Millisecond) // well inside the 10 s unsubscribe back-off
					sub, err := handle(op.A).Subscribe()
					if err != nil {
						res.Inconclusive = err.Error()
						return
					}
					subs[op.A][n-1] = sub
					res.label("resubscribe-inside-backoff")
				}
			case "relay":
				th := handle(op.A)
				if th == nil {
					return
				}
				rc, err := th.Relay()
				if err != nil {
					res.Inconclusive = err.Error()
					return
				}
				relays[op.A] = append(relays[op.A], rc)
			case "unrelay":
				if n := len(relays[op.A]); n > 0 {
					relays[op.A][n-1]()
					relays[op.A] = relays[op.A][:n-1]
				}
			case "connect":
				if op.A != op.B && !st.edge[c01E(op.A, op.B)] {
					if err := s.connect(op.A, op.B); err != nil {
						res.Inconclusive = fmt.Sprintf("connect: %v", err)
						return
					}
				}
			case "disconnect":
				if st.edge[c01E(op.A, op.B)] {
					s.disconnect(op.A, op.B)
					s.wait(300 * time.Millisecond)
				}
			case "wait":
				s.wait(time.Duration(op.Ms) * time.Millisecond)
			case "flap":
				if st.edge[c01E(op.A, op.B)] {
					for k := 0; k < op.Ms; k++ {
						s.disconnect(op.A, op.B)
						s.wait(400 * time.Millisecond)
						if err := s.connect(op.A, op.B); err != nil {
							res.Inconclusive = fmt.Sprintf("connect: %v", err)
							return
						}
						s.wait(600 * time.Millisecond)
					}
					res.label("link-flapped")
				}
			}
			st.apply(op)
			if ri > 0 && op.Kind != "wait" {
				churn = true
			}
		}
		// settle: prune back-off (60 s) + unsubscribe back-off + heartbeats
		s.wait(80 * time.Second)
		// preconditions (they belong to C05 and to the generator, not to this property)
		if comps := st.components(); len(comps) != 1 {
			res.Inconclusive = fmt.Sprintf("generator: overlay has %d components in round %d", len(comps), ri)
			return
		}
		for i := 0; i < N; i++ {
			if st.deg(i) > c01MaxDeg {
				res.Inconclusive = "generator: degree bound exceeded"
				return
			}
			want := map[int]bool{}
			for j := 0; j < N; j++ {
				if j != i && st.edge[c01E(i, j)] {
					if !s.connected(i, j) {
						res.Inconclusive = fmt.Sprintf("hosts %d-%d are not connected although the script says so", i, j)
						return
					}
					if st.interested(j) {
						want[j] = true
					}
				} else if j != i && s.connected(i, j) {
					res.Inconclusive = fmt.Sprintf("hosts %d-%d are connected although the script says otherwise", i, j)
					return
				}
			}
			got := map[int]bool{}
			for _, p := range s.nodes[i].ps.ListPeers(topic) {
				got[s.idx(p)] = true
			}
			if fmt.Sprint(c05Keys(got)) != fmt.Sprint(c05Keys(want)) {
				res.Inconclusive = fmt.Sprintf("round %d: node %d lists topic peers %v, the overlay says %v (announcements have not converged: C05)", ri, i, c05Keys(got), c05Keys(want))
				return
			}
		}
		// publish
		pubStart := s.now()
		var sent []string
		if r.Warm > 0 && len(r.Pubs) > 0 {
			// more than ten heartbeats of traffic from one side before the messages that matter
			th := handle(r.Pubs[0].Node)
			if th == nil {
				return
			}
			for k := 0; k < r.Warm; k++ {
				seq++
				data := fmt.Sprintf("r%d-n%d-w%d%s", ri, r.Pubs[0].Node, seq, pad)
				if err := pub(r.Pubs[0].Node, th, data); err != nil {
					res.violate("C01/publish-error", ri, "node %d: Publish failed: %v", r.Pubs[0].Node, err)
					return
				}
				sent = append(sent, data)
				s.wait(time.Second)
			}
			res.label("sustained-traffic-before")
			// the later publishers of the round are other nodes where possible, so traffic now also flows the other way
		}
		for _, p := range r.Pubs {
			th := handle(p.Node)
			if th == nil {
				return
			}
			for k := 0; k < p.N; k++ {
				seq++
				data := fmt.Sprintf("r%d-n%d-m%d%s", ri, p.Node, seq, pad)
				if err := pub(p.Node, th, data); err != nil {
					res.violate("C01/publish-error", ri, "node %d: Publish failed: %v", p.Node, err)
					return
				}
				sent = append(sent, data)
			}
			if !st.interested(p.Node) {
				res.label("outside-publisher")
			} else if st.subs[p.Node] == 0 {
				res.label("relay-only-publisher")
			}
			s.wait(time.Duration(50+100*len(sent)) * time.Millisecond)
		}
		// eager push + as many gossip rounds as there can be non-mesh hops
		s.wait(time.Duration(N+4) * time.Second)
		// "the meshes have settled" is part of the antecedent, so it is checked: a GRAFT or PRUNE anywhere in the network
		// from two heartbeats before the first publication on means a mesh was changing under the messages (a message
		// published while a mesh is empty and a peer is grafted at the next heartbeat is neither pushed nor advertised
		// to that peer). Such a round is still checked for duplicates and foreign messages, not for completeness.
		meshChanged := false
		for j := 0; j < N && !meshChanged; j++ {
			for _, e := range s.nodes[j].raw.snapshot() {
				if (e.Kind == "graft" || e.Kind == "prune") && e.At >= pubStart-2500*time.Millisecond {
					meshChanged = true
					break
				}
			}
		}
		if meshChanged {
			res.label("mesh-changed-during-round (completeness not judged)")
		}
		// drain
		for i := 0; i < N; i++ {
			for si, sub := range subs[i] {
				got := map[string]int{}
				for {
					ctx, cancel := context.WithTimeout(context.Background(), 5*time.Millisecond)
					m, err := sub.Next(ctx)
					cancel()
					if err != nil {
						break
					}
					got[string(m.Data)]++
				}
				for _, d := range sent {
					switch {
					case got[d] == 0 && meshChanged:
					case got[d] == 0:
						if os.Getenv("VF_DEBUG") != "" {
							for j := 0; j < N; j++ {
								for _, e := range s.nodes[j].raw.snapshot() {
									hit := false
									if e.RPC != nil {
										for _, pm := range e.RPC.GetPublish() {
											hit = hit || string(pm.Data) == d
										}
										if ctl := e.RPC.GetControl(); ctl != nil && (len(ctl.Ihave) > 0 || len(ctl.Iwant) > 0 || len(ctl.Prune) > 0 || len(ctl.Graft) > 0) && e.At > s.now()-20*time.Second {
											fmt.Printf("DEBUG node %d %v %-5s peer=%d ctl ihave=%d iwant=%d graft=%d prune=%d\n", j, e.At, e.Kind, s.idx(e.Peer), len(ctl.Ihave), len(ctl.Iwant), len(ctl.Graft), len(ctl.Prune))
										}
									}
									if e.RPC != nil && len(e.RPC.GetPublish()) > 0 && e.At > s.now()-12*time.Second && (j == 1 || s.idx(e.Peer) == 1) {
										dd := string(e.RPC.GetPublish()[0].Data)
										if len(dd) > 12 {
											dd = dd[:12]
										}
										fmt.Printf("DEBUG node %d %v %-5s peer=%d publish %d msgs first=%q\n", j, e.At, e.Kind, s.idx(e.Peer), len(e.RPC.GetPublish()), dd)
									}
									if hit || (e.MsgID != "" && e.Kind != "recv" && e.Kind != "send" && e.At > s.now()-20*time.Second && (e.Kind == "reject" || e.Kind == "undeliverable")) {
										fmt.Printf("DEBUG node %d %v %-9s peer=%d reason=%s hit=%v\n", j, e.At, e.Kind, s.idx(e.Peer), e.Reason, hit)
									}
								}
							}
						}
						res.violate("C01/not-delivered", ri, "round %d: node %d (%s) subscription %d never received %q published by node %s; overlay %s", ri, i, c.Routers[i], si, c01Short(d), c01Publisher(d), c01Overlay(st, c))
					case got[d] > 1:
						res.violate("C01/delivered-twice", ri, "round %d: node %d subscription %d received %q %d times", ri, i, si, c01Short(d), got[d])
					}
					delete(got, d)
				}
				for d := range got {
					res.violate("C01/unexpected-message", ri, "round %d: node %d subscription %d received %q, which was not published in this round", ri, i, si, c01Short(d))
				}
			}
		}
		// classification
		if N >= 3 || churn {
			far := false
			for _, p := range r.Pubs {
				for i := 0; i < N; i++ {
					if st.subs[i] > 0 && i != p.Node && !st.edge[c01E(i, p.Node)] {
						far = true
					}
				}
			}
			if far || churn {
				res.NT = true
			}
			if far {
				res.label("subscriber-two-or-more-hops-away")
			}
		}
		if churn {
			res.label("churn-round")
		}
		for i := 0; i < N; i++ {
			if st.subs[i] >= 2 {
				res.label("multi-subscription-node")
			}
			if st.relays[i] > 0 && st.subs[i] == 0 {
				res.label("relay-only-node")
			}
			if c.Routers[i] == "gossipsub" && c.Params > 0 && st.deg(i) > c01Params(c.Params).Dhi {
				res.label("degree-above-Dhi (delivery needs IHAVE/IWANT)")
			}
		}
	}
	mixed := map[string]bool{}
	for _, r := range c.Routers {
		mixed[r] = true
	}
	if len(mixed) > 1 {
		res.label("mixed-routers")
	}
	res.label(fmt.Sprintf("params:%d", c.Params))
	if !c.Flood {
		res.label("flood-publish-off")
	}
}

func c01Short(d string) string {
	if len(d) > 24 {
		return d[:24] + "…"
	}
	return d
}

func c01Publisher(d string) string {
	parts := strings.Split(d, "-")
	if len(parts) >= 2 {
		return strings.TrimPrefix(parts[1], "n")
	}
	return "?"
}

func c01Overlay(st *c01State, c c01Case) string {
	var es []string
	for e := range st.edge {
		es = append(es, fmt.Sprintf("%d-%d", e[0], e[1]))
	}
	sort.Strings(es)
	var roles []string
	for i := 0; i < st.n; i++ {
		roles = append(roles, fmt.Sprintf("%d:%s/s%d/r%d", i, c.Routers[i][:1], st.subs[i], st.relays[i]))
	}
	return "edges " + strings.Join(es, " ") + "; nodes " + strings.Join(roles, " ")
}

func TestVfC01Delivery(t *testing.T) {
	vfCheck(t, "C01", c01Gen, c01Run)
}

// c01NamespacedID: a content-based message ID of the form applications use (namespace/version/digest): about 50 bytes,
// the first 34 of them the same for every message.
func c01NamespacedID(m *pb.Message) string {
	h := sha256.Sum256(m.Data)
	return "app.example.org/v1/messages/sha256/" + hex.EncodeToString(h[:8])
}
