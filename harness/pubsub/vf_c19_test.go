package pubsub

// C19 — the event trace is a faithful account from which state can be rebuilt (DESIGN §5 C19).
// Direct-driven node under all three routers with an in-memory tracer teed into the JSON and protobuf file
// tracers; the trace is replayed as set operations and compared with the node's state when quiet.

import (
	"bufio"
	"context"
	"encoding/json"
	"fmt"
	"os"
	"path/filepath"
	"sort"
	"strings"
	"sync"
	"testing"
	"testing/synctest"
	"time"

	pb "github.com/libp2p/go-libp2p-pubsub/pb"
	"github.com/libp2p/go-libp2p/core/peer"
	"github.com/libp2p/go-msgio/protoio"
	"pgregory.net/rapid"
)

type vfMemTracer struct {
	mu   sync.Mutex
	evs  []*pb.TraceEvent
	tees []EventTracer
}

func (m *vfMemTracer) Trace(evt *pb.TraceEvent) {
	m.mu.Lock()
	m.evs = append(m.evs, evt)
	m.mu.Unlock()
	for _, t := range m.tees {
		t.Trace(evt)
	}
}

func (m *vfMemTracer) events() []*pb.TraceEvent {
	m.mu.Lock()
	defer m.mu.Unlock()
	return append([]*pb.TraceEvent(nil), m.evs...)
}

type c19Op struct {
	Op string `json:"op"`
	P  int    `json:"p,omitempty"`
	T  int    `json:"t,omitempty"`
	N  int    `json:"n,omitempty"`
	K  string `json:"k,omitempty"`
}

type c19Case struct {
	Router    string  `json:"router"`
	Queue     int     `json:"queue"`
	AutoDrain bool    `json:"autodrain"`
	Peers     int     `json:"peers"`
	Ops       []c19Op `json:"ops"`
	Scoring   bool    `json:"scoring,omitempty"` // gossipsub with peer scoring and peer exchange; the accept-PX threshold lies above every score
}

func c19Gen(rt *rapid.T) c19Case {
	c := c19Case{Router: rapid.SampledFrom([]string{"gossipsub", "gossipsub", "floodsub", "randomsub"}).Draw(rt, "router")}
	c.AutoDrain = rapid.IntRange(0, 2).Draw(rt, "autodrain") > 0
	c.Scoring = rapid.IntRange(0, 2).Draw(rt, "scoring") == 0
	c.Queue = 64
	if !c.AutoDrain {
		c.Queue = rapid.IntRange(1, 3).Draw(rt, "queue")
	}
	c.Peers = rapid.IntRange(1, 6).Draw(rt, "peers")
	n := rapid.IntRange(3, 50).Draw(rt, "nops")
	kinds := []string{"arrive", "arrive", "arrive+sub", "arrive+sub", "depart", "sub", "unsub", "graft", "prune", "join", "join", "leave", "relay", "unrelay", "hb", "hb", "lpub", "lpub", "lpublocal", "batch", "batchlocal", "prunepx", "rpub", "rpub", "rpub", "drain", "adv", "recancel"}
	for i := 0; i < n; i++ {
		op := c19Op{Op: rapid.SampledFrom(kinds).Draw(rt, "op"), P: rapid.IntRange(1, c.Peers).Draw(rt, "p"), T: rapid.IntRange(0, 1).Draw(rt, "t")}
		switch op.Op {
		case "arrive", "arrive+sub":
			op.N = rapid.SampledFrom([]int{2, 2, 3, 0, 5}).Draw(rt, "proto")
		case "rpub":
			op.K = rapid.SampledFrom([]string{"valid", "valid", "dup", "badsig", "reject", "ignore"}).Draw(rt, "kind")
		case "batch", "batchlocal":
			op.N = rapid.IntRange(1, 4).Draw(rt, "n")
		case "adv":
			op.N = rapid.SampledFrom([]int{100, 1100, 5000}).Draw(rt, "ms")
		}
		c.Ops = append(c.Ops, op)
	}
	return c
}

// independent canonical rendering of an RPC's metadata ...
func c19MetaOfRPC(rpc *pb.RPC) string {
	var parts []string
	for _, m := range rpc.Publish {
		parts = append(parts, fmt.Sprintf("msg(%q,%q)", DefaultMsgIdFn(m), m.GetTopic()))
	}
	for _, s := range rpc.Subscriptions {
		parts = append(parts, fmt.Sprintf("sub(%v,%q)", s.GetSubscribe(), s.GetTopicid()))
	}
	if c := rpc.Control; c != nil {
		for _, x := range c.Ihave {
			parts = append(parts, fmt.Sprintf("ihave(%q,%q)", x.GetTopicID(), x.MessageIDs))
		}
		for _, x := range c.Iwant {
			parts = append(parts, fmt.Sprintf("iwant(%q)", x.MessageIDs))
		}
		for _, x := range c.Graft {
			parts = append(parts, fmt.Sprintf("graft(%q)", x.GetTopicID()))
		}
		for _, x := range c.Prune {
			var ps []string
			for _, pi := range x.Peers {
				ps = append(ps, string(pi.PeerID))
			}
			parts = append(parts, fmt.Sprintf("prune(%q,%q)", x.GetTopicID(), ps))
		}
		for _, x := range c.Idontwant {
			parts = append(parts, fmt.Sprintf("idontwant(%q)", x.MessageIDs))
		}
	}
	return strings.Join(parts, ";")
}

// ... and of the metadata a trace event carries
func c19MetaOfEvent(m *pb.TraceEvent_RPCMeta) string {
	if m == nil {
		return ""
	}
	toS := func(bs [][]byte) []string {
		var out []string
		for _, b := range bs {
			out = append(out, string(b))
		}
		return out
	}
	var parts []string
	for _, x := range m.Messages {
		parts = append(parts, fmt.Sprintf("msg(%q,%q)", string(x.MessageID), x.GetTopic()))
	}
	for _, s := range m.Subscription {
		parts = append(parts, fmt.Sprintf("sub(%v,%q)", s.GetSubscribe(), s.GetTopic()))
	}
	if c := m.Control; c != nil {
		for _, x := range c.Ihave {
			parts = append(parts, fmt.Sprintf("ihave(%q,%q)", x.GetTopic(), toS(x.MessageIDs)))
		}
		for _, x := range c.Iwant {
			parts = append(parts, fmt.Sprintf("iwant(%q)", toS(x.MessageIDs)))
		}
		for _, x := range c.Graft {
			parts = append(parts, fmt.Sprintf("graft(%q)", x.GetTopic()))
		}
		for _, x := range c.Prune {
			parts = append(parts, fmt.Sprintf("prune(%q,%q)", x.GetTopic(), toS(x.Peers)))
		}
		for _, x := range c.Idontwant {
			parts = append(parts, fmt.Sprintf("idontwant(%q)", toS(x.MessageIDs)))
		}
	}
	return strings.Join(parts, ";")
}

func c19Run(t *testing.T, c c19Case) (res vfResult) {
	msg := vfBubble(t, func() { c19RunInBubble(t, c, &res) })
	if msg != "" {
		res.violate("C19/panic", -1, "%s", msg)
	}
	return
}

var c19FileSeq int64
var c19FileMu sync.Mutex

func c19RunInBubble(t *testing.T, c c19Case, res *vfResult) {
	c19FileMu.Lock()
	c19FileSeq++
	base := filepath.Join(vfEnv.outDir, fmt.Sprintf("trace-%d-%d", os.Getpid(), c19FileSeq))
	c19FileMu.Unlock()
	jt, err := NewJSONTracer(base + ".json")
	if err != nil {
		res.Inconclusive = "cannot create trace file: " + err.Error()
		return
	}
	pt, err := NewPBTracer(base + ".pb")
	if err != nil {
		jt.Close()
		res.Inconclusive = "cannot create trace file: " + err.Error()
		return
	}
	defer os.Remove(base + ".json")
	defer os.Remove(base + ".pb")
	mem := &vfMemTracer{tees: []EventTracer{jt, pt}}
	closed := false
	closeTracers := func() {
		if !closed {
			closed = true
			jt.Close()
			pt.Close()
			synctest.Wait()
		}
	}
	defer closeTracers()

	gp := DefaultGossipSubParams()
	gp.D, gp.Dlo, gp.Dhi, gp.Dscore, gp.Dout = 2, 1, 3, 0, 0
	gp.PruneBackoff, gp.UnsubscribeBackoff = 3*time.Second, time.Second
	val := func(ctx context.Context, p peer.ID, m *Message) ValidationResult {
		switch {
		case strings.HasPrefix(string(m.Data), "reject"):
			return ValidationReject
		case strings.HasPrefix(string(m.Data), "ignore"):
			return ValidationIgnore
		}
		return ValidationAccept
	}
	opts := []Option{WithEventTracer(mem), WithPeerOutboundQueueSize(c.Queue), WithDefaultValidator(val, WithValidatorInline(true))}
	if c.Scoring && c.Router == "gossipsub" {
		opts = append(opts, WithPeerExchange(true), WithPeerScore(
			&PeerScoreParams{AppSpecificScore: func(peer.ID) float64 { return 0 }, DecayInterval: time.Second, DecayToZero: 0.01, Topics: map[string]*TopicScoreParams{}},
			&PeerScoreThresholds{AcceptPXThreshold: 10}))
		res.label("scoring+px")
	}
	n, err := newVfNode(t, vfNodeCfg{Router: c.Router, Params: &gp, ManualHeartbeat: true, Opts: opts})
	if err != nil {
		res.Inconclusive = err.Error()
		return
	}
	defer n.close()

	topics := map[int]*Topic{}
	subs := map[int][]*Subscription{}
	cancelled := map[int]*Subscription{} // per topic: the subscription cancelled last
	relays := map[int][]RelayCancelFunc{}
	handle := func(ti int) *Topic {
		if h, ok := topics[ti]; ok {
			return h
		}
		h, err := n.ps.Join(vfTopic(ti))
		if err != nil {
			panic(err)
		}
		topics[ti] = h
		return h
	}
	queued := map[int][]string{} // per peer: canonical metadata of every RPC popped from its queue
	note := func(sent []vfSent) {
		for _, w := range sent {
			queued[w.To] = append(queued[w.To], c19MetaOfRPC(&w.RPC.RPC))
		}
	}
	publishCalls := 0
	deliveredToSub := map[string]int{} // message id -> deliveries seen on the first subscription of its topic
	seq := uint64(70000)
	var lastValid *pb.Message
	sawLeave, sawClose, sawDrop, sawReject := false, false, false, false

	drainOne := func(i int, s *Subscription) {
		for {
			select {
			case m, ok := <-s.ch:
				if !ok {
					return
				}
				if i == 0 {
					deliveredToSub[DefaultMsgIdFn(m.Message)]++
				}
			default:
				return
			}
		}
	}
	drainSubs := func() {
		for _, ss := range subs {
			for i, s := range ss {
				drainOne(i, s)
			}
		}
	}

	// replay of the trace so far as set operations
	replay := func(step int, what string) {
		evs := mem.events()
		peers := map[string]bool{}
		mesh := map[string]map[string]bool{}
		joined := map[string]bool{}
		delivers := map[string]int{}
		publishes := 0
		for _, e := range evs {
			switch e.GetType() {
			case pb.TraceEvent_ON_NEW_OUTBOUND_STREAM:
				peers[string(e.OnNewOutboundStream.PeerID)] = true
			case pb.TraceEvent_ON_CLOSED_OUTBOUND_STREAM:
				p := string(e.OnClosedOutboundStream.PeerID)
				delete(peers, p)
				for _, m := range mesh {
					delete(m, p)
				}
				sawClose = true
			case pb.TraceEvent_JOIN:
				tn := e.Join.GetTopic()
				if joined[tn] {
					res.violate("C19/join-leave-alternation", step, "after %s: two JOIN events for %s without a LEAVE in between", what, tn)
				}
				joined[tn] = true
				mesh[tn] = map[string]bool{}
			case pb.TraceEvent_LEAVE:
				tn := e.Leave.GetTopic()
				if !joined[tn] {
					res.violate("C19/join-leave-alternation", step, "after %s: LEAVE event for %s which the trace does not show as joined", what, tn)
				}
				delete(joined, tn)
				delete(mesh, tn)
				sawLeave = true
			case pb.TraceEvent_GRAFT:
				tn := e.Graft.GetTopic()
				if mesh[tn] == nil {
					mesh[tn] = map[string]bool{}
				}
				mesh[tn][string(e.Graft.PeerID)] = true
			case pb.TraceEvent_PRUNE:
				if m := mesh[e.Prune.GetTopic()]; m != nil {
					delete(m, string(e.Prune.PeerID))
				}
			case pb.TraceEvent_DELIVER_MESSAGE:
				delivers[string(e.DeliverMessage.MessageID)]++
			case pb.TraceEvent_PUBLISH_MESSAGE:
				publishes++
			case pb.TraceEvent_DROP_RPC:
				sawDrop = true
			case pb.TraceEvent_REJECT_MESSAGE:
				sawReject = true
			}
		}
		// compare with the node
		n.eval(func() {
			actualJoined := map[string]bool{}
			for tn, ss := range n.ps.mySubs {
				if len(ss) > 0 {
					actualJoined[tn] = true
				}
			}
			for tn, r := range n.ps.myRelays {
				if r > 0 {
					actualJoined[tn] = true
				}
			}
			for tn := range actualJoined {
				if !joined[tn] {
					res.violate("C19/join-not-traced", step, "after %s: the node has joined %s but the trace does not say so", what, tn)
				}
			}
			for tn := range joined {
				if !actualJoined[tn] {
					res.violate("C19/leave-not-traced", step, "after %s: the trace shows %s as joined but the node has left it", what, tn)
				}
			}
			actualPeers := map[string]bool{}
			switch rt := n.ps.rt.(type) {
			case *GossipSubRouter:
				for p := range rt.peers {
					actualPeers[string(p)] = true
				}
				for tn, m := range rt.mesh {
					for p := range m {
						if !mesh[tn][string(p)] {
							res.violate("C19/mesh-mismatch", step, "after %s: peer %d is in the mesh of %s but replaying GRAFT/PRUNE does not put it there", what, n.byID[p], tn)
						}
					}
					for p := range mesh[tn] {
						if _, ok := m[peer.ID(p)]; !ok {
							res.violate("C19/mesh-mismatch", step, "after %s: replaying GRAFT/PRUNE leaves peer %d in the mesh of %s, the router does not have it", what, n.byID[peer.ID(p)], tn)
						}
					}
				}
				for tn, m := range mesh {
					if _, ok := rt.mesh[tn]; !ok && len(m) > 0 {
						res.violate("C19/mesh-mismatch", step, "after %s: replay has a mesh of %d peers for %s, the router has none", what, len(m), tn)
					}
				}
			case *RandomSubRouter:
				for p := range rt.peers {
					actualPeers[string(p)] = true
				}
			default:
				for p := range n.ps.peers {
					actualPeers[string(p)] = true
				}
			}
			for p := range actualPeers {
				if !peers[p] {
					res.violate("C19/peer-set-mismatch", step, "after %s: peer %d is connected but replaying the stream events does not show it", what, n.byID[peer.ID(p)])
				}
			}
			for p := range peers {
				if !actualPeers[p] {
					res.violate("C19/peer-set-mismatch", step, "after %s: replaying the stream events shows peer %d, the router does not have it", what, n.byID[peer.ID(p)])
				}
			}
		})
		for id, k := range delivers {
			if k > 1 {
				res.violate("C19/deliver-traced-twice", step, "after %s: %d DELIVER_MESSAGE events for one message id", what, k)
			}
			_ = id
		}
		for id, k := range deliveredToSub {
			if delivers[id] != 1 {
				res.violate("C19/deliver-not-traced", step, "after %s: a message was delivered to a subscription (%d times) but has %d DELIVER_MESSAGE events", what, k, delivers[id])
			}
		}
		if publishes != publishCalls {
			res.violate("C19/publish-trace-count", step, "after %s: %d local publication attempts, %d PUBLISH_MESSAGE events", what, publishCalls, publishes)
		}
	}

	for step, op := range c.Ops {
		topic := vfTopic(op.T)
		switch op.Op {
		case "adv":
			time.Sleep(time.Duration(op.N) * time.Millisecond)
		case "arrive":
			n.addPeer(op.P, vfProto(op.N), c.Queue, nil)
		case "arrive+sub":
			n.addPeer(op.P, vfProto(op.N), c.Queue, nil)
			n.recv(op.P, vfSubRPC(topic, true))
		case "depart":
			note(n.drainPeer(op.P)) // what is still queued was accepted by the queue
			n.killPeer(op.P, true)
		case "sub":
			n.recv(op.P, vfSubRPC(topic, true))
		case "unsub":
			n.recv(op.P, vfSubRPC(topic, false))
		case "graft":
			n.recv(op.P, vfGraftRPC(topic))
		case "prune":
			n.recv(op.P, vfPruneRPC(topic, 1, nil))
		case "prunepx":
			// a PRUNE that carries peer-exchange records (ignored when the pruning peer's score is below the threshold)
			n.recv(op.P, vfPruneRPC(topic, 1, []*pb.PeerInfo{{PeerID: []byte(vfPeer(30).ID), SignedPeerRecord: c09SealRecord(vfPeer(30))}}))
			res.label("prune-with-px")
		case "hb":
			if n.gs != nil {
				n.heartbeat()
			}
		case "join":
			s, err := handle(op.T).Subscribe(WithBufferSize(4096))
			if err != nil {
				panic(err)
			}
			subs[op.T] = append(subs[op.T], s)
		case "leave":
			if ss := subs[op.T]; len(ss) > 0 {
				drainSubs()
				ss[len(ss)-1].Cancel()
				cancelled[op.T] = ss[len(ss)-1]
				subs[op.T] = ss[:len(ss)-1]
				n.eval(func() {})
			}
		case "recancel":
			// cancelling a subscription a second time is legal and must change nothing
			if s := cancelled[op.T]; s != nil {
				s.Cancel()
				n.eval(func() {})
				n.settle()
				res.label("subscription-cancelled-twice")
			}
		case "relay":
			r, err := handle(op.T).Relay()
			if err != nil {
				panic(err)
			}
			relays[op.T] = append(relays[op.T], r)
		case "unrelay":
			if rr := relays[op.T]; len(rr) > 0 {
				rr[0]()
				relays[op.T] = rr[1:]
				n.eval(func() {})
			}
		case "lpub", "lpublocal":
			publishCalls++
			var po []PubOpt
			if op.Op == "lpublocal" {
				po = append(po, WithLocalPublication(true))
				res.label("local-only-publication")
			}
			_ = handle(op.T).Publish(n.ctx, []byte(fmt.Sprintf("local-%d", step)), po...)
			n.settle()
		case "batch", "batchlocal":
			if n.gs == nil {
				continue
			}
			var b MessageBatch
			for k := 0; k < op.N; k++ {
				publishCalls++
				var po []PubOpt
				if op.Op == "batchlocal" && k%2 == 0 {
					po = append(po, WithLocalPublication(true))
				}
				_ = handle(op.T).AddToBatch(n.ctx, &b, []byte(fmt.Sprintf("batch-%d-%d", step, k)), po...)
			}
			if err := n.ps.PublishBatch(&b); err != nil {
				res.violate("C19/batch-error", step, "%v", err)
			}
			n.settle()
			res.label("batch-publish")
		case "rpub":
			var connected bool
			n.eval(func() { _, connected = n.ps.peers[vfPeer(op.P).ID] })
			if !connected {
				continue
			}
			seq++
			var m *pb.Message
			switch op.K {
			case "dup":
				if lastValid == nil {
					continue
				}
				m = lastValid
			case "badsig":
				m = vfSignedMsg(vfPeer(34), topic, seq, []byte(fmt.Sprintf("bad-%d", step)))
				m.Data = append(m.Data, 'x')
			case "reject":
				m = vfSignedMsg(vfPeer(34), topic, seq, []byte(fmt.Sprintf("reject-%d", step)))
			case "ignore":
				m = vfSignedMsg(vfPeer(34), topic, seq, []byte(fmt.Sprintf("ignore-%d", step)))
			default:
				m = vfSignedMsg(vfPeer(34), topic, seq, []byte(fmt.Sprintf("remote-%d", step)))
				lastValid = m
			}
			n.recv(op.P, vfMsgRPC(m))
			n.settle()
		case "drain":
			note(n.drainPeer(op.P))
		}
		if c.AutoDrain {
			note(n.drain())
		}
		drainSubs()
		replay(step, op.Op)
		if len(res.Viols) > 0 {
			return
		}
	}
	// quiet: everything the queues accepted vs SEND_RPC events, per peer, as multisets of metadata
	note(n.drain())
	evs := mem.events()
	sends := map[int][]string{}
	for _, e := range evs {
		if e.GetType() == pb.TraceEvent_SEND_RPC {
			p := n.byID[peer.ID(e.SendRPC.SendTo)]
			sends[p] = append(sends[p], c19MetaOfEvent(e.SendRPC.Meta))
		}
	}
	for p := 1; p <= c.Peers; p++ {
		a, b := append([]string(nil), queued[p]...), append([]string(nil), sends[p]...)
		sort.Strings(a)
		sort.Strings(b)
		onlyQ, onlyT := vfMultisetDiff(a, b)
		if onlyQ > 0 {
			res.violate("C19/send-not-traced", len(c.Ops), "peer %d: %d RPC(s) accepted by its outbound queue have no matching SEND_RPC event (of %d)", p, onlyQ, len(a))
		}
		if onlyT > 0 {
			res.violate("C19/send-traced-not-queued", len(c.Ops), "peer %d: %d SEND_RPC event(s) match nothing its outbound queue accepted (of %d)", p, onlyT, len(b))
		}
	}
	// the files say the same as the in-memory sequence
	closeTracers()
	want := make([]string, len(evs))
	for i, e := range evs {
		want[i] = vfMustMarshal(e)
	}
	if f, err := os.Open(base + ".json"); err == nil {
		sc := bufio.NewScanner(f)
		sc.Buffer(make([]byte, 1<<20), 1<<26)
		i := 0
		for sc.Scan() {
			var e pb.TraceEvent
			if err := json.Unmarshal(sc.Bytes(), &e); err != nil {
				res.violate("C19/json-trace", len(c.Ops), "line %d of the JSON trace does not parse: %v", i, err)
				break
			}
			if i >= len(want) || vfMustMarshal(&e) != want[i] {
				res.violate("C19/json-trace", len(c.Ops), "event %d of the JSON trace differs from the event the tracer was given", i)
				break
			}
			i++
		}
		f.Close()
		if i != len(want) && len(res.Viols) == 0 {
			res.violate("C19/json-trace", len(c.Ops), "the JSON trace holds %d events, the tracer was given %d", i, len(want))
		}
	} else {
		res.violate("C19/json-trace", len(c.Ops), "cannot read the JSON trace: %v", err)
	}
	if f, err := os.Open(base + ".pb"); err == nil {
		r := protoio.NewDelimitedReader(f, 1<<24)
		i := 0
		for {
			var e pb.TraceEvent
			if err := r.ReadMsg(&e); err != nil {
				break
			}
			if i >= len(want) || vfMustMarshal(&e) != want[i] {
				res.violate("C19/pb-trace", len(c.Ops), "event %d of the protobuf trace differs from the event the tracer was given", i)
				break
			}
			i++
		}
		f.Close()
		if i != len(want) && len(res.Viols) == 0 {
			res.violate("C19/pb-trace", len(c.Ops), "the protobuf trace holds %d events, the tracer was given %d", i, len(want))
		}
	} else {
		res.violate("C19/pb-trace", len(c.Ops), "cannot read the protobuf trace: %v", err)
	}
	res.NT = (sawLeave || sawClose) && (sawDrop || sawReject)
	for _, l := range []struct {
		b bool
		s string
	}{{sawLeave, "leave"}, {sawClose, "stream-closed"}, {sawDrop, "rpc-dropped"}, {sawReject, "message-rejected"}} {
		if l.b {
			res.label(l.s)
		}
	}
	res.label("router:" + c.Router)
}

func TestVfC19Trace(t *testing.T) {
	vfCheck(t, "C19", c19Gen, c19Run)
}
