package pubsub

// C12 — no input from remote peers can crash the node or stall its event loop (DESIGN §5 C12).
//   TestVfC12Hostile   structured hostile RPCs against many node configurations, liveness probe after each
//   FuzzVfC12          arbitrary bytes -> RPC.Unmarshal -> event loop (native fuzzing in the thorough tier;
//                      the seed corpus runs as a plain test in the quick tier)

import (
	"context"
	"fmt"
	"log/slog"
	"strings"
	"sync"
	"testing"
	"testing/synctest"
	"time"

	"github.com/libp2p/go-libp2p-pubsub/partialmessages"
	pb "github.com/libp2p/go-libp2p-pubsub/pb"
	"github.com/libp2p/go-libp2p/core/peer"
	"github.com/libp2p/go-libp2p/core/record"
	circuitproto "github.com/libp2p/go-libp2p/p2p/protocol/circuitv2/proto"
	"pgregory.net/rapid"
)

type c12Cfg struct {
	Router    string `json:"router"`
	Seqno     bool   `json:"seqno_validator"`
	Filter    int    `json:"filter"` // 0 none, 1 allow-list, 2 allow-list with limit
	Policy    int    `json:"policy"`
	Score     bool   `json:"score"`
	Gater     bool   `json:"gater"`
	PX        bool   `json:"px"`
	Ext       bool   `json:"extensions"`
	MaxSize   int    `json:"max_size"` // max message size (0 default)
	Vals      bool   `json:"validators,omitempty"` // two more asynchronous validators: a quick one that rejects short payloads, a slow one with one slot
}

// a hostile RPC as data: every field drawn from pools of nasty values
type c12Str struct {
	K int `json:"k"` // 0 absent, 1 empty, 2 known topic 0, 3 known topic 1, 4 unknown, 5 huge, 6 binary junk
	N int `json:"n,omitempty"`
}

type c12MsgSpec struct {
	From   int    `json:"from"`  // 0 absent 1 empty 2 junk 3 the sender 4 another identity 5 the node itself 6 truncated id
	Seqno  int    `json:"seqno"` // length, -1 absent
	Topic  c12Str `json:"topic"`
	Data   int    `json:"data"`  // length
	Sig    int    `json:"sig"`   // 0 absent 1 empty 2 junk 3 honest signature by the sender over the weird fields
	Key    int    `json:"key"`   // 0 absent 1 junk 2 sender's key
}

type c12RPCSpec struct {
	Sender int          `json:"sender"` // 1..3 connected peers, 4 a peer the node never heard of, 5 the node's own id
	Subs   []c12Str     `json:"subs,omitempty"`
	SubOn  []int        `json:"sub_on,omitempty"` // per subscription: 0 absent 1 true 2 false
	Msgs   []c12MsgSpec `json:"msgs,omitempty"`
	Ihave  []c12Str     `json:"ihave,omitempty"`
	NIDs   int          `json:"nids,omitempty"` // ids per IHAVE / IWANT / IDONTWANT entry
	IDLen  int          `json:"idlen,omitempty"`
	Iwant  int          `json:"iwant,omitempty"`
	Idw    int          `json:"idontwant,omitempty"`
	Graft  []c12Str     `json:"graft,omitempty"`
	Prune  []c12Str     `json:"prune,omitempty"`
	PX     int          `json:"px,omitempty"` // 0 none 1 junk records 2 nil ids 3 a valid record under another id 4 many 5 valid 6 signed envelope of another record type 7 unsigned peer record
	Backoff int         `json:"backoff,omitempty"` // 0 absent 1 zero 2 huge
	Ext    int          `json:"ext,omitempty"` // 0 none 1 empty 2 both set
	Partial int         `json:"partial,omitempty"` // 0 none 1 empty 2 nil topic 3 known topic 4 huge group
	TestExt bool        `json:"testext,omitempty"`
	EmptyCtl bool       `json:"emptyctl,omitempty"`
	Repeat   int        `json:"repeat,omitempty"` // the same RPC is sent this many more times in a row
}

type c12Case struct {
	Cfg  c12Cfg       `json:"cfg"`
	RPCs []c12RPCSpec `json:"rpcs"`
}

func c12GenStr(rt *rapid.T, name string) c12Str {
	s := c12Str{K: rapid.SampledFrom([]int{0, 1, 2, 2, 2, 3, 4, 5, 6}).Draw(rt, name)}
	if s.K == 5 {
		s.N = rapid.SampledFrom([]int{300, 4096, 65536}).Draw(rt, name+"N")
	}
	return s
}

func c12Gen(rt *rapid.T) c12Case {
	var c c12Case
	c.Cfg = c12Cfg{Router: rapid.SampledFrom([]string{"gossipsub", "gossipsub", "floodsub", "randomsub"}).Draw(rt, "router"), Seqno: rapid.Bool().Draw(rt, "seqno"),
		Filter: rapid.IntRange(0, 2).Draw(rt, "filter"), Policy: rapid.IntRange(0, 3).Draw(rt, "policy"), Score: rapid.Bool().Draw(rt, "score"),
		Gater: rapid.Bool().Draw(rt, "gater"), PX: rapid.Bool().Draw(rt, "px"), Ext: rapid.Bool().Draw(rt, "ext"), MaxSize: rapid.SampledFrom([]int{0, 0, 256, 4096}).Draw(rt, "maxsize")}
	c.Cfg.Vals = rapid.IntRange(0, 2).Draw(rt, "vals") == 0
	n := rapid.IntRange(1, 10).Draw(rt, "nrpcs")
	for i := 0; i < n; i++ {
		r := c12RPCSpec{Sender: rapid.SampledFrom([]int{1, 1, 2, 3, 4, 5}).Draw(rt, "sender")}
		for k := 0; k < rapid.SampledFrom([]int{0, 0, 1, 2, 40}).Draw(rt, "nsubs"); k++ {
			r.Subs = append(r.Subs, c12GenStr(rt, "sub"))
			r.SubOn = append(r.SubOn, rapid.IntRange(0, 2).Draw(rt, "subon"))
		}
		for k := 0; k < rapid.SampledFrom([]int{0, 0, 1, 2, 5}).Draw(rt, "nmsgs"); k++ {
			r.Msgs = append(r.Msgs, c12MsgSpec{From: rapid.SampledFrom([]int{0, 1, 2, 3, 3, 3, 4, 5, 6}).Draw(rt, "from"), Seqno: rapid.IntRange(-1, 12).Draw(rt, "seqno"), Topic: c12GenStr(rt, "mtopic"),
				Data: rapid.SampledFrom([]int{0, 1, 100, 2000, 70000}).Draw(rt, "data"), Sig: rapid.SampledFrom([]int{0, 1, 2, 3, 3, 3}).Draw(rt, "sig"), Key: rapid.IntRange(0, 2).Draw(rt, "key")})
		}
		if rapid.Bool().Draw(rt, "ctl") {
			for k := 0; k < rapid.SampledFrom([]int{0, 1, 3}).Draw(rt, "nihave"); k++ {
				r.Ihave = append(r.Ihave, c12GenStr(rt, "ihave"))
			}
			r.NIDs = rapid.SampledFrom([]int{0, 1, 5, 6000}).Draw(rt, "nids")
			r.IDLen = rapid.SampledFrom([]int{0, 1, 20, 40, 3000}).Draw(rt, "idlen")
			r.Iwant = rapid.SampledFrom([]int{0, 1, 3}).Draw(rt, "niwant")
			r.Idw = rapid.SampledFrom([]int{0, 1, 3, 1200}).Draw(rt, "nidw")
			for k := 0; k < rapid.SampledFrom([]int{0, 1, 2, 30}).Draw(rt, "ngraft"); k++ {
				r.Graft = append(r.Graft, c12GenStr(rt, "graft"))
			}
			for k := 0; k < rapid.SampledFrom([]int{0, 1, 2, 30}).Draw(rt, "nprune"); k++ {
				r.Prune = append(r.Prune, c12GenStr(rt, "prune"))
			}
			r.PX = rapid.IntRange(0, 7).Draw(rt, "pxkind")
			r.Backoff = rapid.IntRange(0, 2).Draw(rt, "backoff")
			r.Ext = rapid.IntRange(0, 2).Draw(rt, "extk")
			r.EmptyCtl = true
		}
		r.Repeat = rapid.SampledFrom([]int{0, 0, 0, 1, 2, 12}).Draw(rt, "repeat")
		r.Partial = rapid.IntRange(0, 4).Draw(rt, "partial")
		r.TestExt = rapid.Bool().Draw(rt, "testext")
		c.RPCs = append(c.RPCs, r)
	}
	return c
}

func (s c12Str) val() *string {
	var v string
	switch s.K {
	case 0:
		return nil
	case 1:
		v = ""
	case 2:
		v = vfTopic(0)
	case 3:
		v = vfTopic(1)
	case 4:
		v = "no-such-topic"
	case 5:
		v = strings.Repeat("T", s.N)
	case 6:
		v = "\x00\xff\xfe topic \x80"
	}
	return &v
}

func c12Build(spec c12RPCSpec, self *vfIdent) *RPC {
	rpc := &RPC{}
	sender := vfPeer(spec.Sender)
	if spec.Sender == 5 {
		sender = self
	}
	for i, s := range spec.Subs {
		so := &pb.RPC_SubOpts{Topicid: s.val()}
		switch spec.SubOn[i] {
		case 1:
			t := true
			so.Subscribe, so.RequestsPartial = &t, &t
		case 2:
			f := false
			so.Subscribe = &f
		}
		rpc.Subscriptions = append(rpc.Subscriptions, so)
	}
	for i, m := range spec.Msgs {
		pm := &pb.Message{Topic: m.Topic.val(), Data: []byte(strings.Repeat("d", m.Data))}
		if len(pm.Data) > 0 {
			pm.Data[0] = byte('a' + i)
		}
		switch m.From {
		case 1:
			pm.From = []byte{}
		case 2:
			pm.From = []byte("junk-from")
		case 3:
			pm.From = []byte(sender.ID)
		case 4:
			pm.From = []byte(vfPeer(36).ID)
		case 5:
			pm.From = []byte(self.ID)
		case 6:
			pm.From = []byte(sender.ID)[:5]
		}
		if m.Seqno >= 0 {
			pm.Seqno = make([]byte, m.Seqno)
			for j := range pm.Seqno {
				pm.Seqno[j] = byte(200 + i + j)
			}
		}
		switch m.Key {
		case 1:
			pm.Key = []byte("junk-key")
		case 2:
			pm.Key, _ = sender.Pub.Raw()
		}
		switch m.Sig {
		case 1:
			pm.Signature = []byte{}
		case 2:
			pm.Signature = []byte("junk-signature")
		case 3:
			// honestly signed by the sender, whatever the fields say: reaches the validators under strict signing
			y := pb.Message{From: pm.From, Data: pm.Data, Seqno: pm.Seqno, Topic: pm.Topic}
			if b, err := y.Marshal(); err == nil {
				pm.Signature, _ = sender.Priv.Sign(append([]byte("libp2p-pubsub:"), b...))
			}
		}
		rpc.Publish = append(rpc.Publish, pm)
	}
	// keep one RPC around 2 MB at most: what matters are the counts and the shapes, not gigabytes
	if entries := len(spec.Ihave) + spec.Iwant + spec.Idw; entries > 0 {
		per := spec.IDLen + 4
		if spec.NIDs*per*entries > 2_000_000 {
			spec.NIDs = 2_000_000 / (per * entries)
			if spec.NIDs < 1 {
				spec.NIDs = 1
			}
		}
	}
	ids := func() []string {
		out := make([]string, spec.NIDs)
		for i := range out {
			out[i] = strings.Repeat("i", spec.IDLen) + fmt.Sprint(i)
			if spec.IDLen == 0 {
				out[i] = ""
			}
		}
		return out
	}
	if spec.EmptyCtl {
		ctl := &pb.ControlMessage{}
		for _, s := range spec.Ihave {
			ctl.Ihave = append(ctl.Ihave, &pb.ControlIHave{TopicID: s.val(), MessageIDs: ids()})
		}
		for k := 0; k < spec.Iwant; k++ {
			ctl.Iwant = append(ctl.Iwant, &pb.ControlIWant{MessageIDs: ids()})
		}
		for k := 0; k < spec.Idw; k++ {
			ctl.Idontwant = append(ctl.Idontwant, &pb.ControlIDontWant{MessageIDs: ids()})
		}
		for _, s := range spec.Graft {
			ctl.Graft = append(ctl.Graft, &pb.ControlGraft{TopicID: s.val()})
		}
		for _, s := range spec.Prune {
			pr := &pb.ControlPrune{TopicID: s.val()}
			switch spec.Backoff {
			case 1:
				z := uint64(0)
				pr.Backoff = &z
			case 2:
				h := ^uint64(0)
				pr.Backoff = &h
			}
			switch spec.PX {
			case 1:
				pr.Peers = []*pb.PeerInfo{{PeerID: []byte(vfPeer(20).ID), SignedPeerRecord: []byte("garbage")}, {PeerID: []byte("short"), SignedPeerRecord: []byte{}}}
			case 2:
				pr.Peers = []*pb.PeerInfo{{}, {PeerID: nil, SignedPeerRecord: nil}, {PeerID: []byte{}}}
			case 3:
				pr.Peers = []*pb.PeerInfo{{PeerID: []byte(vfPeer(21).ID), SignedPeerRecord: c09SealRecord(vfPeer(22))}}
			case 4:
				for k := 0; k < 200; k++ {
					pr.Peers = append(pr.Peers, &pb.PeerInfo{PeerID: []byte(vfPeer(20 + k%10).ID)})
				}
			case 5:
				pr.Peers = []*pb.PeerInfo{{PeerID: []byte(vfPeer(23).ID), SignedPeerRecord: c09SealRecord(vfPeer(23))}}
			case 6:
				// a correctly signed envelope in the peer-record domain whose payload is another record type every libp2p
				// host has registered (a relay reservation voucher)
				pr.Peers = []*pb.PeerInfo{{PeerID: []byte(vfPeer(24).ID), SignedPeerRecord: c12SealOtherRecord(vfPeer(24))}}
			case 7:
				// the envelope's signature does not verify
				b := c09SealRecord(vfPeer(25))
				b[len(b)-1] ^= 0x55
				pr.Peers = []*pb.PeerInfo{{PeerID: []byte(vfPeer(25).ID), SignedPeerRecord: b}}
			}
			ctl.Prune = append(ctl.Prune, pr)
		}
		switch spec.Ext {
		case 1:
			ctl.Extensions = &pb.ControlExtensions{}
		case 2:
			t := true
			ctl.Extensions = &pb.ControlExtensions{PartialMessages: &t, TestExtension: &t}
		}
		rpc.Control = ctl
	}
	switch spec.Partial {
	case 1:
		rpc.Partial = &pb.PartialMessagesExtension{}
	case 2:
		rpc.Partial = &pb.PartialMessagesExtension{GroupID: []byte("g"), PartsMetadata: []byte{1}}
	case 3:
		tn := vfTopic(0)
		rpc.Partial = &pb.PartialMessagesExtension{TopicID: &tn, GroupID: []byte("g"), PartialMessage: []byte("p"), PartsMetadata: []byte{1, 2}}
	case 4:
		tn := vfTopic(0)
		rpc.Partial = &pb.PartialMessagesExtension{TopicID: &tn, GroupID: []byte(strings.Repeat("G", 70000))}
	}
	if spec.TestExt {
		rpc.TestExtension = &pb.TestExtension{}
	}
	return rpc
}

func c12Run(t *testing.T, c c12Case) (res vfResult) {
	msg := vfBubble(t, func() { c12RunInBubble(t, c, &res) })
	if msg != "" {
		res.violate("C12/panic", -1, "%s", msg)
	}
	return
}

type c12Node struct {
	n        *vfNode
	sub      *Subscription
	th       *Topic
	valPanic *[]string
	mu       *sync.Mutex
	seq      uint64
}

func c12NewNode(t *testing.T, cfg c12Cfg) (*c12Node, error) {
	var mu sync.Mutex
	var valPanics []string
	topics := []string{vfTopic(0), vfTopic(1)}
	opts := []Option{WithMessageSignaturePolicy(c03Policies[cfg.Policy])}
	if cfg.MaxSize > 0 {
		opts = append(opts, WithMaxMessageSize(cfg.MaxSize))
	}
	if cfg.Seqno {
		inner := NewBasicSeqnoValidator(&c20Store{vals: map[peer.ID][]byte{}, puts: map[peer.ID][]uint64{}}, slog.Default())
		// a recovering wrapper: a panic inside the built-in validator is reported, not allowed to kill the process
		opts = append(opts, WithDefaultValidator(func(ctx context.Context, p peer.ID, m *Message) (r ValidationResult) {
			defer func() {
				if x := recover(); x != nil {
					mu.Lock()
					valPanics = append(valPanics, fmt.Sprintf("BasicSeqnoValidator: %v", x))
					mu.Unlock()
					r = ValidationIgnore
				}
			}()
			return inner(ctx, p, m)
		}))
	}
	if cfg.Vals {
		// an expensive application validator with a single slot, next to the quick topic validator registered below
		opts = append(opts, WithDefaultValidator(func(ctx context.Context, _ peer.ID, _ *Message) ValidationResult {
			select {
			case <-time.After(5 * time.Millisecond):
			case <-ctx.Done():
			}
			return ValidationAccept
		}, WithValidatorConcurrency(1)))
	}
	switch cfg.Filter {
	case 1:
		opts = append(opts, WithSubscriptionFilter(NewAllowlistSubscriptionFilter(topics...)))
	case 2:
		opts = append(opts, WithSubscriptionFilter(WrapLimitSubscriptionFilter(NewAllowlistSubscriptionFilter(topics...), 10)))
	}
	if cfg.Router == "gossipsub" {
		if cfg.Score {
			tsp := &TopicScoreParams{SkipAtomicValidation: true, TopicWeight: 1, InvalidMessageDeliveriesWeight: -0.001, InvalidMessageDeliveriesDecay: 0.5}
			opts = append(opts, WithPeerScore(&PeerScoreParams{AppSpecificScore: func(peer.ID) float64 { return 0 }, DecayInterval: time.Second, DecayToZero: 0.01,
				BehaviourPenaltyWeight: -0.001, BehaviourPenaltyDecay: 0.5, Topics: map[string]*TopicScoreParams{topics[0]: tsp}},
				&PeerScoreThresholds{GossipThreshold: -1e9, PublishThreshold: -1e9, GraylistThreshold: -1e9, AcceptPXThreshold: 0}))
		}
		if cfg.Gater && !cfg.Vals { // (the gater answers legitimately throttled validations with random drops)
			opts = append(opts, WithPeerGater(NewPeerGaterParams(.1, .9, .999)))
		}
		opts = append(opts, WithPeerExchange(cfg.PX))
		if cfg.Ext {
			pme := &partialmessages.PartialMessagesExtension[*c13PeerState]{Logger: slog.Default(),
				OnEmitGossip:  func(string, []byte, []peer.ID, map[peer.ID]*c13PeerState) {},
				OnIncomingRPC: func(from peer.ID, st map[peer.ID]*c13PeerState, _ *pb.PartialMessagesExtension) error { st[from] = &c13PeerState{}; return nil }}
			opts = append(opts, WithTestExtension(TestExtensionConfig{OnReceiveTestExtension: func(peer.ID) {}}), WithPartialMessagesExtension(pme))
		}
	}
	gp := DefaultGossipSubParams()
	n, err := newVfNode(t, vfNodeCfg{Router: cfg.Router, Params: &gp, Opts: opts}) // automatic heartbeats
	if err != nil {
		return nil, err
	}
	cn := &c12Node{n: n, valPanic: &valPanics, mu: &mu, seq: 800}
	if cfg.Vals {
		if err := n.ps.RegisterTopicValidator(topics[0], func(_ context.Context, _ peer.ID, m *Message) ValidationResult {
			if l := len(m.Data); l <= 1 || l == 100 {
				return ValidationReject
			}
			return ValidationAccept
		}); err != nil {
			n.close()
			return nil, err
		}
	}
	var to []TopicOpt
	if cfg.Router == "gossipsub" && cfg.Ext {
		to = append(to, RequestPartialMessages())
	}
	cn.th, err = n.ps.Join(topics[0], to...)
	if err != nil {
		n.close()
		return nil, err
	}
	cn.sub, _ = cn.th.Subscribe(WithBufferSize(4096))
	if th1, err := n.ps.Join(topics[1]); err == nil {
		th1.Subscribe(WithBufferSize(4096))
	}
	protos := map[string][]int{"gossipsub": {2, 3, 4, 0}, "floodsub": {0, 0, 0, 0}, "randomsub": {5, 5, 0, 5}}[cfg.Router]
	for p := 1; p <= 3; p++ {
		n.addPeer(p, vfProto(protos[p-1]), 0, nil)
		n.recv(p, vfSubRPC(topics[0], true))
	}
	n.addPeer(8, vfProto(protos[3]), 0, nil) // the honest peer of the liveness probe
	n.recv(8, vfSubRPC(topics[0], true))
	n.drain()
	return cn, nil
}

// probe: the API still answers and an honest peer's fresh message is still delivered
func (cn *c12Node) probe(res *vfResult, step int, cfg c12Cfg, what string) {
	n := cn.n
	done := make(chan struct{})
	go func() {
		n.ps.ListPeers(vfTopic(0))
		close(done)
	}()
	select {
	case <-done:
	case <-time.After(time.Second):
		res.violate("C12/event-loop-stalled", step, "after %s: ListPeers did not answer within 1 s", what)
		return
	}
	// a flood may legitimately be throttled (validation queue of 32, subscription buffer of 32): let the pipeline drain and
	// empty the subscription before the honest message is sent, so that only a node that stopped working loses it
	if cfg.Vals {
		time.Sleep(20 * time.Millisecond) // the one-slot validator finishes what it has in hand
	}
	synctest.Wait()
	for len(cn.sub.ch) > 0 {
		<-cn.sub.ch
	}
	cn.seq++
	data := fmt.Sprintf("probe-%d", cn.seq)
	pm := vfSignedMsg(vfPeer(8), vfTopic(0), cn.seq+1<<40, []byte(data))
	if c03Policies[cfg.Policy]&msgVerification != 0 && c03Policies[cfg.Policy]&msgSigning == 0 {
		pm.Signature, pm.Key = nil, nil // strict no-signing
	}
	if pan := n.recvRecover(8, vfMsgRPC(pm)); pan != nil {
		res.violate("C12/panic", step, "after %s: an honest message panics the event loop: %v", what, pan)
		return
	}
	time.Sleep(50 * time.Millisecond)
	synctest.Wait()
	got := false
	for len(cn.sub.ch) > 0 {
		if m := <-cn.sub.ch; string(m.Data) == data {
			got = true
		}
	}
	if !got {
		res.violate("C12/honest-peer-not-served", step, "after %s: a fresh, valid message from an honest peer was not delivered", what)
	}
	cn.mu.Lock()
	for _, p := range *cn.valPanic {
		res.violate("C12/validator-panic", step, "after %s: %s", what, p)
	}
	cn.mu.Unlock()
	n.drain()
}

func c12RunInBubble(t *testing.T, c c12Case, res *vfResult) {
	cn, err := c12NewNode(t, c.Cfg)
	if err != nil {
		res.label("constructor-refused")
		return
	}
	defer cn.n.close()
	n := cn.n
	reached := false
	for i, spec := range c.RPCs {
		built := c12Build(spec, vfPeer(0))
		// only what a peer can put on the wire: the RPC goes through the encoder and the decoder the stream reader uses
		wire, err := built.Marshal()
		if err != nil {
			continue
		}
		rpc := &RPC{}
		if err := rpc.Unmarshal(wire); err != nil {
			res.violate("C12/decode", i, "an RPC the encoder produced does not decode: %v", err)
			return
		}
		if spec.Sender == 5 {
			rpc.from = n.h.id
		}
		mark := len(n.raw.snapshot())
		var pan any
		for rep := 0; rep <= spec.Repeat && pan == nil; rep++ {
			if rep > 0 {
				rpc = &RPC{}
				_ = rpc.Unmarshal(wire)
			}
			if spec.Sender == 5 {
				rpc.from = n.h.id
				pan = n.evalRecover(func() { n.ps.handleIncomingRPC(rpc) })
			} else {
				pan = n.recvRecover(spec.Sender, rpc)
			}
		}
		if pan != nil {
			res.violate("C12/panic", i, "the event loop panicked handling a hostile RPC: %v", pan)
			return
		}
		// also what the direct signature check makes of every message, under recover
		for _, pm := range rpc.Publish {
			func() {
				defer func() {
					if x := recover(); x != nil {
						res.violate("C12/verify-panic", i, "verifyMessageSignature panicked: %v", x)
					}
				}()
				_ = verifyMessageSignature(pm)
			}()
		}
		for _, e := range n.raw.snapshot()[mark:] {
			switch e.Kind {
			case "validate", "reject", "deliver", "graft", "prune", "duplicate":
				reached = true
				res.label("reached:" + e.Kind)
			}
		}
		if rpc.Control != nil || len(rpc.Subscriptions) > 0 {
			reached = true
		}
		cn.probe(res, i, c.Cfg, fmt.Sprintf("hostile RPC %d", i))
		if len(res.Viols) > 0 {
			return
		}
	}
	res.NT = reached
	res.label("router:" + c.Cfg.Router)
	if c.Cfg.Vals {
		res.label("three-validators")
	}
}

func TestVfC12Hostile(t *testing.T) {
	vfCheck(t, "C12", c12Gen, c12Run)
}

// ---------------------------------------------------------------------------------------------------
// bytes -> RPC.Unmarshal -> event loop

func c12FuzzOne(t *testing.T, data []byte, cfgBits uint16) {
	cfg := c12Cfg{Router: []string{"gossipsub", "floodsub", "randomsub", "gossipsub"}[cfgBits&3], Seqno: cfgBits&4 != 0, Filter: int(cfgBits>>3) % 3, Policy: int(cfgBits>>5) & 3,
		Score: cfgBits&128 != 0, Gater: cfgBits&256 != 0, PX: cfgBits&512 != 0, Ext: cfgBits&1024 != 0}
	rpc := &RPC{}
	if err := rpc.Unmarshal(data); err != nil {
		return // the stream reader resets the stream on this; nothing reaches the node
	}
	var res vfResult
	msg := vfBubble(t, func() {
		cn, err := c12NewNode(t, cfg)
		if err != nil {
			return
		}
		defer cn.n.close()
		for _, sender := range []int{1, 4} { // a connected peer and one the node never heard of
			r := &RPC{}
			_ = r.Unmarshal(data)
			if pan := cn.n.recvRecover(sender, r); pan != nil {
				res.violate("C12/panic", 0, "the event loop panicked handling a decoded RPC: %v", pan)
				return
			}
			for _, pm := range r.Publish {
				func() {
					defer func() {
						if x := recover(); x != nil {
							res.violate("C12/verify-panic", 0, "verifyMessageSignature panicked: %v", x)
						}
					}()
					_ = verifyMessageSignature(pm)
				}()
			}
		}
		cn.probe(&res, 0, cfg, "a decoded RPC")
	})
	if msg != "" {
		res.violate("C12/panic", 0, "%s", msg)
	}
	for _, v := range res.Viols {
		if vfEnv.known[v.Key] {
			continue
		}
		vfWriteCaseFile("lastfail-FuzzVfC12.json", "C12", "FuzzVfC12", []byte(fmt.Sprintf(`{"cfg":%d,"rpc_hex":"%x"}`, cfgBits, data)), res.Viols)
		t.Fatalf("VF-VIOLATION key=%s %s", v.Key, v.Msg)
	}
	cj := []byte(fmt.Sprintf(`{"cfg":%d,"rpc_hex":"%x"}`, cfgBits, data))
	if len(cj) > 600 {
		cj = []byte(fmt.Sprintf(`{"cfg":%d,"rpc_len":%d,"rpc_hash":"%x"}`, cfgBits, len(data), vfHash(data)))
	}
	res.NT = rpc.Control != nil || len(rpc.Publish) > 0 || len(rpc.Subscriptions) > 0 || rpc.Partial != nil
	vfRecord("C12", "FuzzVfC12", cj, &res)
}

func FuzzVfC12(f *testing.F) {
	// seed corpus: structured hostile RPCs from the generator's pools, plus hostile constants
	specs := []c12RPCSpec{
		{Sender: 1, Subs: []c12Str{{K: 2}, {K: 1}, {K: 0}}, SubOn: []int{1, 2, 0}},
		{Sender: 1, Msgs: []c12MsgSpec{{From: 3, Seqno: 3, Topic: c12Str{K: 2}, Data: 10, Sig: 3}, {From: 6, Seqno: 8, Topic: c12Str{K: 0}, Data: 0, Sig: 2, Key: 1}}},
		{Sender: 1, EmptyCtl: true, Ihave: []c12Str{{K: 2}, {K: 0}}, NIDs: 5, IDLen: 20, Iwant: 1, Idw: 2, Graft: []c12Str{{K: 2}, {K: 4}}, Prune: []c12Str{{K: 2}}, PX: 1, Backoff: 2, Ext: 2},
		{Sender: 1, Partial: 3, TestExt: true, EmptyCtl: true, Ext: 1},
		{Sender: 1, EmptyCtl: true, Prune: []c12Str{{K: 2}}, PX: 3},
	}
	for i, sp := range specs {
		if b, err := c12Build(sp, vfPeer(0)).Marshal(); err == nil {
			f.Add(b, uint16(i*37+1))
			f.Add(b, uint16(0xffff))
		}
	}
	f.Add([]byte{}, uint16(0))
	f.Add([]byte{0x1a, 0x00}, uint16(7))
	f.Add([]byte{0x12, 0x02, 0x1a, 0x00}, uint16(128))
	f.Fuzz(func(t *testing.T, data []byte, cfgBits uint16) {
		if len(data) > 1<<20 {
			return
		}
		c12FuzzOne(t, data, cfgBits)
	})
}

// c12DomainSwap presents a record of another type under the peer-record envelope domain.
type c12DomainSwap struct{ record.Record }

func (c12DomainSwap) Domain() string { return peer.PeerRecordEnvelopeDomain }

func c12SealOtherRecord(id *vfIdent) []byte {
	v := &circuitproto.ReservationVoucher{Relay: id.ID, Peer: vfPeer(26).ID, Expiration: time.Unix(4102444800, 0)}
	env, err := record.Seal(c12DomainSwap{v}, id.Priv)
	if err != nil {
		panic(err)
	}
	b, err := env.Marshal()
	if err != nil {
		panic(err)
	}
	return b
}
