package pubsub

// C06 — every forwarded copy goes to exactly the peers the router rules require (DESIGN §5 C06).
// From a snapshot taken in the event loop just before a publish the harness computes the must-send and
// may-send sets of the statement; the observed recipients have to lie between them, and each copy has to be
// the accepted message byte for byte with a signature that still verifies.

import (
	"fmt"
	"math"
	"testing"
	"time"

	pb "github.com/libp2p/go-libp2p-pubsub/pb"
	"github.com/libp2p/go-libp2p/core/crypto"
	"github.com/libp2p/go-libp2p/core/peer"
	"github.com/libp2p/go-libp2p/core/protocol"
	"pgregory.net/rapid"
)

type c06Op struct {
	Op    string  `json:"op"`
	P     int     `json:"p,omitempty"`
	Q     int     `json:"q,omitempty"` // author index for remote publishes: 0 = the sender itself, else peer index, 40+ = unconnected key
	T     int     `json:"t,omitempty"`
	Proto int     `json:"proto,omitempty"`
	V     float64 `json:"v,omitempty"`
	N     int     `json:"n,omitempty"`
	Local bool    `json:"local,omitempty"`
	Batch bool    `json:"batch,omitempty"` // local publish through AddToBatch + PublishBatch (gossipsub)
	Near  bool    `json:"near,omitempty"`  // idontwant: name a neighbouring ID (the ID plus a zero byte), not the message's own
}

type c06Case struct {
	Router string  `json:"router"`
	Flood  bool    `json:"flood"`
	D      int     `json:"D"`
	Direct []int   `json:"direct,omitempty"`
	Peers  int     `json:"peers"`
	TTL    int     `json:"fanout_ttl_s,omitempty"` // configured FanoutTTL in seconds (0: 60)
	Ops    []c06Op `json:"ops"`
}

const (
	c06PublishThr = -5.0
)

func c06Gen(rt *rapid.T) c06Case {
	c := c06Case{Router: rapid.SampledFrom([]string{"gossipsub", "gossipsub", "gossipsub", "floodsub", "randomsub"}).Draw(rt, "router")}
	c.Flood = rapid.Bool().Draw(rt, "flood")
	c.D = rapid.IntRange(2, 4).Draw(rt, "D")
	c.Peers = rapid.IntRange(1, 12).Draw(rt, "peers")
	for i := 0; i < rapid.IntRange(0, 2).Draw(rt, "ndirect"); i++ {
		c.Direct = append(c.Direct, rapid.IntRange(1, c.Peers).Draw(rt, "d"))
	}
	// populate: peers arrive and subscribe
	protos := []int{2, 2, 3, 4, 0, 0, 1}
	if c.Router == "randomsub" {
		protos = []int{5, 5, 5, 0}
	} else if c.Router == "floodsub" {
		protos = []int{0}
	}
	for p := 1; p <= c.Peers; p++ {
		c.Ops = append(c.Ops, c06Op{Op: "arrive", P: p, Proto: rapid.SampledFrom(protos).Draw(rt, "proto")})
		for t := 0; t < 2; t++ {
			if rapid.IntRange(0, 3).Draw(rt, "sub") > 0 {
				c.Ops = append(c.Ops, c06Op{Op: "sub", P: p, T: t})
			}
		}
	}
	if rapid.IntRange(0, 3).Draw(rt, "join0") > 0 {
		c.Ops = append(c.Ops, c06Op{Op: "join", T: 0})
	}
	c.TTL = rapid.SampledFrom([]int{0, 0, 20, 150}).Draw(rt, "fanoutTTL")
	n := rapid.IntRange(3, 40).Draw(rt, "nops")
	kinds := []string{"lpub", "lpub", "lpub", "rpub", "rpub", "rpub", "hb", "hb", "graft", "graft", "prune", "idontwant", "idontwant", "score", "score", "sub", "unsub", "depart", "arrive", "join", "leave", "adddirect", "rmdirect", "adv"}
	for i := 0; i < n; i++ {
		op := c06Op{Op: rapid.SampledFrom(kinds).Draw(rt, "op"), P: rapid.IntRange(1, c.Peers).Draw(rt, "p"), T: rapid.IntRange(0, 1).Draw(rt, "t")}
		switch op.Op {
		case "arrive":
			op.Proto = rapid.SampledFrom(protos).Draw(rt, "proto")
		case "score":
			op.V = rapid.SampledFrom([]float64{-8, c06PublishThr, math.Nextafter(c06PublishThr, -10), math.Nextafter(c06PublishThr, 0), -1, 0, 1}).Draw(rt, "v")
		case "rpub":
			op.Q = rapid.SampledFrom([]int{0, 0, rapid.IntRange(1, c.Peers).Draw(rt, "author"), 41}).Draw(rt, "q")
		case "lpub":
			op.Local = rapid.IntRange(0, 7).Draw(rt, "localonly") == 0
			op.Batch = rapid.IntRange(0, 3).Draw(rt, "batch") == 0
		case "idontwant":
			op.N = rapid.IntRange(0, 3).Draw(rt, "ahead") // names the message that will be published N publishes from now
			op.Near = rapid.IntRange(0, 3).Draw(rt, "near") == 0
		case "adv":
			op.N = rapid.SampledFrom([]int{500, 5000, 30000, 61000}).Draw(rt, "ms")
		case "hb":
			op.N = rapid.IntRange(1, 3).Draw(rt, "times")
		}
		c.Ops = append(c.Ops, op)
	}
	return c
}

// c06ID is the data-derived message ID function the node is configured with, so that an IDONTWANT can name a
// message before it exists.
func c06ID(m *pb.Message) string { return "id:" + string(m.Data) }

// c06Verify re-implements the signature rule independently of sign.go (key from the ID or attached and
// matching; signature over prefix || marshal(message without signature and key)).
func c06Verify(m *pb.Message) error {
	id, err := peer.IDFromBytes(m.From)
	if err != nil {
		return fmt.Errorf("bad from: %v", err)
	}
	var pub crypto.PubKey
	if m.Key != nil { // present on the wire, even if empty
		pub, err = crypto.UnmarshalPublicKey(m.Key)
		if err != nil {
			return fmt.Errorf("bad key: %v", err)
		}
		want, err := peer.IDFromPublicKey(pub)
		if err != nil || want != id {
			return fmt.Errorf("attached key does not belong to the author")
		}
	} else {
		pub, err = id.ExtractPublicKey()
		if err != nil || pub == nil {
			return fmt.Errorf("no key for author")
		}
	}
	cp := pb.Message{From: m.From, Data: m.Data, Seqno: m.Seqno, Topic: m.Topic, XXX_unrecognized: m.XXX_unrecognized}
	body, err := cp.Marshal()
	if err != nil {
		return err
	}
	ok, err := pub.Verify(append([]byte("libp2p-pubsub:"), body...), m.Signature)
	if err != nil || !ok {
		return fmt.Errorf("signature does not verify (%v)", err)
	}
	return nil
}

func c06Run(t *testing.T, c c06Case) (res vfResult) {
	msg := vfBubble(t, func() { c06RunInBubble(t, c, &res) })
	if msg != "" {
		res.violate("C06/panic", -1, "%s", msg)
	}
	return
}

type c06Snap struct {
	topicP   map[peer.ID]bool
	queue    map[peer.ID]bool
	proto    map[peer.ID]string
	known    map[peer.ID]bool // router tracks the peer
	direct   map[peer.ID]bool
	score    map[peer.ID]float64
	mesh     map[peer.ID]bool
	hasMesh  bool
	fanout   map[peer.ID]bool
	unwanted map[peer.ID]bool // announced IDONTWANT for this message
}

func c06RunInBubble(t *testing.T, c c06Case, res *vfResult) {
	app := map[peer.ID]float64{}
	gp := DefaultGossipSubParams()
	gp.D, gp.Dlo, gp.Dhi, gp.Dscore, gp.Dout = c.D, 1, c.D+4, 0, 0
	gp.FanoutTTL = 60 * time.Second
	if c.TTL > 0 {
		gp.FanoutTTL = time.Duration(c.TTL) * time.Second // a configured value, not the package default
	}
	opts := []Option{WithMessageIdFn(c06ID)}
	if c.Router == "gossipsub" {
		opts = append(opts, WithPeerScore(&PeerScoreParams{AppSpecificScore: func(p peer.ID) float64 { return app[p] }, AppSpecificWeight: 1, DecayInterval: time.Hour, DecayToZero: 0.01,
			Topics: map[string]*TopicScoreParams{}}, &PeerScoreThresholds{GossipThreshold: -2, PublishThreshold: c06PublishThr, GraylistThreshold: -100, AcceptPXThreshold: 100}),
			WithFloodPublish(c.Flood))
		var direct []peer.AddrInfo
		for _, d := range c.Direct {
			direct = append(direct, peer.AddrInfo{ID: vfPeer(d).ID})
		}
		if len(direct) > 0 {
			opts = append(opts, WithDirectPeers(direct))
		}
	}
	n, err := newVfNode(t, vfNodeCfg{Router: c.Router, Params: &gp, ManualHeartbeat: true, Opts: opts})
	if err != nil {
		res.Inconclusive = "constructor refused: " + err.Error()
		return
	}
	defer n.close()

	topics := map[int]*Topic{}
	subs := map[int]*Subscription{}
	handle := func(ti int) *Topic {
		if h, ok := topics[ti]; ok {
			return h
		}
		h, err := n.ps.Join(vfTopic(ti))
		if err != nil {
			panic(err)
		}
		topics[ti] = h
		return h
	}
	pubNo := 0
	modelLastPub := map[string]int64{} // topic -> virtual time of the last publication that went through the fanout path
	dataOf := func(k int) string { return fmt.Sprintf("payload-%d", k) }
	unwantedTTL := map[[2]string]int{} // (peer, data) -> heartbeats left
	seq := uint64(5000)
	nontrivial := false

	snapshot := func(topic, data string) *c06Snap {
		s := &c06Snap{topicP: map[peer.ID]bool{}, queue: map[peer.ID]bool{}, proto: map[peer.ID]string{}, known: map[peer.ID]bool{}, direct: map[peer.ID]bool{},
			score: map[peer.ID]float64{}, mesh: map[peer.ID]bool{}, fanout: map[peer.ID]bool{}, unwanted: map[peer.ID]bool{}}
		n.eval(func() {
			for p := range n.ps.topics[topic] {
				s.topicP[p] = true
			}
			for p := range n.ps.peers {
				s.queue[p] = true
			}
			switch rt := n.ps.rt.(type) {
			case *GossipSubRouter:
				for p, pr := range rt.peers {
					s.proto[p], s.known[p] = string(pr), true
				}
				for p := range rt.direct {
					s.direct[p] = true
				}
				m, ok := rt.mesh[topic]
				s.hasMesh = ok
				for p := range m {
					s.mesh[p] = true
				}
				for p := range rt.fanout[topic] {
					s.fanout[p] = true
				}
				for _, f := range n.fakes {
					s.score[f.ID] = rt.score.Score(f.ID)
				}
			case *RandomSubRouter:
				for p, pr := range rt.peers {
					s.proto[p], s.known[p] = string(pr), true
				}
			}
		})
		for k, ttl := range unwantedTTL {
			if k[1] == data && ttl > 0 {
				s.unwanted[peer.ID(k[0])] = true
			}
		}
		return s
	}

	// judge one publish. from = forwarding peer ("" for local), author = claimed author.
	judge := func(step int, s *c06Snap, sent []vfSent, orig *pb.Message, data string, from, author peer.ID, local, localOnly bool) {
		got := map[peer.ID]*pb.Message{}
		for _, w := range sent {
			for _, m := range w.RPC.Publish {
				if string(m.Data) == data {
					pid := vfPeer(w.To).ID
					if got[pid] != nil {
						res.violate("C06/sent-twice", step, "peer %d was sent two copies of one message", w.To)
					}
					got[pid] = m
				}
			}
		}
		must, may := map[peer.ID]string{}, map[peer.ID]string{}
		exact, exactLo := -1, -1 // bounds on the number of recipients among the "choice" set, when the router's documentation fixes it
		choice := map[peer.ID]bool{}
		cand := func(p peer.ID) bool { return s.topicP[p] && s.queue[p] && p != from && p != author }
		classes := map[string]bool{}
		switch {
		case localOnly:
		case c.Router == "floodsub":
			for p := range s.topicP {
				if cand(p) {
					must[p], may[p] = "topic peer", "topic peer"
				}
			}
		case c.Router == "randomsub":
			var rs []peer.ID
			for p := range s.topicP {
				if !cand(p) {
					continue
				}
				if s.proto[p] == string(FloodSubID) {
					must[p], may[p] = "floodsub peer", "floodsub peer"
					classes["floodsub"] = true
				} else {
					rs = append(rs, p)
					classes["randomsub"] = true
				}
			}
			target := RandomSubD
			if sq := int(math.Ceil(math.Sqrt(10))); sq > target {
				target = sq
			}
			// topic peers without an outbound stream (their inbound stream still delivers subscriptions) take part
			// in the router's draw but cannot be sent anything: each of them may use up one slot
			ghosts := 0
			for p := range s.topicP {
				if !s.queue[p] && p != from && p != author {
					ghosts++
				}
			}
			if len(rs)+ghosts <= RandomSubD {
				for _, p := range rs {
					must[p], may[p] = "randomsub peer (all of them fit)", "randomsub peer"
				}
			} else {
				for _, p := range rs {
					may[p], choice[p] = "randomsub peer", true
				}
				exact = min(target, len(rs))
				exactLo = max(0, min(target, len(rs)+ghosts)-ghosts)
			}
		default: // gossipsub
			if c.Flood && local {
				for p := range s.topicP {
					if cand(p) && (s.direct[p] || s.score[p] >= c06PublishThr) {
						must[p], may[p] = "flood publish", "flood publish"
					}
				}
				classes["flood"] = true
				break
			}
			for p := range s.topicP {
				if !cand(p) {
					continue
				}
				if s.direct[p] {
					must[p], may[p] = "direct peer", "direct peer"
					classes["direct"] = true
				}
				if !vfIsMesh(vfProtoOf(s.proto[p])) && s.score[p] >= c06PublishThr {
					must[p], may[p] = "floodsub peer at or above the publish threshold", "floodsub peer"
					classes["floodsub"] = true
				}
			}
			if s.hasMesh {
				for p := range s.mesh {
					if cand(p) && !s.unwanted[p] {
						must[p], may[p] = "mesh member", "mesh member"
						classes["mesh"] = true
					}
					if s.unwanted[p] {
						classes["idontwant"] = true
					}
				}
			} else if len(s.fanout) > 0 {
				for p := range s.fanout {
					if cand(p) && !s.unwanted[p] {
						must[p], may[p] = "fan-out member", "fan-out member"
						classes["fanout"] = true
					}
					if s.unwanted[p] {
						classes["idontwant"] = true
					}
				}
			} else {
				// a fresh fan-out set: up to D eligible peers, whichever
				n := 0
				for p := range s.topicP {
					if s.known[p] && vfIsMesh(vfProtoOf(s.proto[p])) && !s.direct[p] && s.score[p] >= c06PublishThr {
						n++
						if cand(p) && !s.unwanted[p] && may[p] == "" {
							may[p], choice[p] = "eligible for fan-out", true
						}
					}
				}
				if n > 0 {
					classes["fresh-fanout"] = true
				}
			}
		}
		for p, why := range must {
			if got[p] == nil {
				res.violate("C06/missed:"+vfFirstWord(why), step, "peer %d (%s; score %g, protocol %s) was not sent the message", n.byID[p], why, s.score[p], s.proto[p])
			}
		}
		nChoice := 0
		for p := range got {
			if _, ok := may[p]; !ok {
				why := "not entitled to it"
				switch {
				case p == from:
					why = "the peer it came from"
				case p == author:
					why = "its author"
				case !s.topicP[p]:
					why = "not known to be in the topic"
				case localOnly:
					why = "outside the node (local-only publication)"
				case s.unwanted[p]:
					why = "a peer that announced IDONTWANT for it"
				case c.Router == "gossipsub" && s.score[p] < c06PublishThr:
					why = fmt.Sprintf("below the publish threshold (score %g)", s.score[p])
				}
				res.violate("C06/sent-to:"+vfFirstWord(why), step, "the message was sent to peer %d, which is %s", n.byID[p], why)
			}
			if choice[p] {
				nChoice++
			}
		}
		if exact >= 0 && (nChoice > exact || nChoice < exactLo) {
			res.violate("C06/random-selection-size", step, "%d randomly selected peers were sent the message, the rule says %d..%d", nChoice, exactLo, exact)
		}
		if c.Router == "gossipsub" && !s.hasMesh && len(s.fanout) == 0 && !(c.Flood && local) && !localOnly {
			want := len(choice)
			if want > c.D {
				want = c.D
			}
			// the fresh fan-out set has min(D, eligible) members; those among them that may receive this message get it
			if nChoice > c.D {
				res.violate("C06/fanout-size", step, "a fresh fan-out set sent to %d peers, D=%d", nChoice, c.D)
			}
			if from == "" && author == n.h.id && len(s.unwanted) == 0 && nChoice < want {
				res.violate("C06/fanout-size", step, "a fresh fan-out set sent to %d peers although %d are eligible (D=%d)", nChoice, len(choice), c.D)
			}
		}
		// every copy is the accepted message, byte for byte, and still verifies
		var ref string
		if orig != nil {
			ref = vfMustMarshal(orig)
		}
		for p, m := range got {
			b := vfMustMarshal(m)
			if ref == "" {
				ref = b
			}
			if b != ref {
				res.violate("C06/copy-altered", step, "the copy sent to peer %d differs from the accepted message", n.byID[p])
			}
			if err := c06Verify(m); err != nil {
				res.violate("C06/copy-signature", step, "the copy sent to peer %d does not verify: %v", n.byID[p], err)
			}
		}
		if len(s.topicP) >= 3 && len(classes) >= 2 {
			nontrivial = true
		}
		for cl := range classes {
			res.label("class:" + cl)
		}
	}

	for step, op := range c.Ops {
		topic := vfTopic(op.T)
		pid := vfPeer(op.P).ID
		switch op.Op {
		case "arrive":
			n.addPeer(op.P, vfProto(op.Proto), 0, nil)
		case "depart":
			var hadStream bool
			n.eval(func() { _, hadStream = n.ps.peers[pid] })
			n.killPeer(op.P, true)
			// the router forgets a peer's IDONTWANTs when its outbound stream closes; a peer that never had one (its
			// announcements came on its own stream only) is not "removed" by a departure
			for k := range unwantedTTL {
				if k[0] == string(pid) && hadStream {
					delete(unwantedTTL, k)
				}
			}
		case "sub":
			n.recv(op.P, vfSubRPC(topic, true))
		case "unsub":
			n.recv(op.P, vfSubRPC(topic, false))
		case "graft":
			n.recv(op.P, vfGraftRPC(topic))
		case "prune":
			n.recv(op.P, vfPruneRPC(topic, 1, nil))
		case "score":
			app[pid] = op.V
		case "adv":
			time.Sleep(time.Duration(op.N) * time.Millisecond)
		case "adddirect":
			if c.Router == "gossipsub" {
				_ = n.ps.AddDirectPeer(peer.AddrInfo{ID: pid})
			}
		case "rmdirect":
			if c.Router == "gossipsub" {
				_ = n.ps.RemoveDirectPeer(pid)
			}
		case "join":
			if subs[op.T] == nil {
				s, err := handle(op.T).Subscribe()
				if err != nil {
					panic(err)
				}
				subs[op.T] = s
			}
		case "leave":
			if subs[op.T] != nil {
				subs[op.T].Cancel()
				subs[op.T] = nil
				n.eval(func() {})
			}
		case "idontwant":
			if c.Router != "gossipsub" {
				continue
			}
			var connected bool
			n.eval(func() { _, connected = n.gs.peers[pid] })
			data := dataOf(pubNo + 1 + op.N)
			if op.Near {
				// another ID, one zero byte longer: says nothing about the message itself
				n.recv(op.P, &RPC{RPC: pb.RPC{Control: &pb.ControlMessage{Idontwant: []*pb.ControlIDontWant{{MessageIDs: []string{"id:" + data + "\x00"}}}}}})
				res.label("idontwant-for-a-neighbouring-id")
				continue
			}
			n.recv(op.P, &RPC{RPC: pb.RPC{Control: &pb.ControlMessage{Idontwant: []*pb.ControlIDontWant{{MessageIDs: []string{"id:" + data}}}}}})
			_ = connected
			unwantedTTL[[2]string{string(pid), data}] = gp.IDontWantMessageTTL
		case "hb":
			if c.Router != "gossipsub" {
				continue
			}
			for k := 0; k < op.N; k++ {
				type fan struct{ members, eligibleNew map[peer.ID]bool }
				pre := map[string]*fan{}
				var lastpub map[string]int64
				n.eval(func() {
					lastpub = map[string]int64{}
					for tn, t := range n.gs.lastpub {
						lastpub[tn] = t
					}
					// the time of the last publication is the harness's own record wherever it has one: the statement
					// says "keeps being published to", not "since the set was created"
					for tn, t := range modelLastPub {
						lastpub[tn] = t
					}
					for tn, m := range n.gs.fanout {
						f := &fan{members: map[peer.ID]bool{}, eligibleNew: map[peer.ID]bool{}}
						for p := range m {
							if _, in := n.ps.topics[tn][p]; in && n.gs.score.Score(p) >= c06PublishThr {
								f.members[p] = true // stays eligible
							}
						}
						for p := range n.ps.topics[tn] {
							_, dir := n.gs.direct[p]
							if _, in := m[p]; !in && !dir && vfIsMesh(n.gs.peers[p]) && n.gs.score.Score(p) >= c06PublishThr {
								f.eligibleNew[p] = true
							}
						}
						pre[tn] = f
					}
				})
				now := time.Now().UnixNano()
				n.heartbeat()
				n.drain()
				n.eval(func() {
					for tn, f := range pre {
						post, ok := n.gs.fanout[tn]
						if lastpub[tn]+int64(gp.FanoutTTL) < now {
							if ok {
								res.violate("C06/fanout-not-expired", step, "fan-out of %s kept although nothing was published to it for FanoutTTL", tn)
							}
							res.label("fanout-expired")
							continue
						}
						if !ok {
							if _, joined := n.gs.mesh[tn]; !joined {
								res.violate("C06/fanout-churn", step, "fan-out of %s dropped %v before FanoutTTL", tn, time.Duration(lastpub[tn]+int64(gp.FanoutTTL)-now))
							}
							continue
						}
						for p := range f.members {
							if _, in := post[p]; !in {
								res.violate("C06/fanout-churn", step, "fan-out member %d of %s was dropped although it stayed eligible", n.byID[p], tn)
							}
						}
						for p := range post {
							if !f.members[p] && !f.eligibleNew[p] {
								res.violate("C06/fanout-ineligible", step, "peer %d is in the fan-out of %s after the heartbeat but is not eligible", n.byID[p], tn)
							}
						}
						want := len(f.members) + len(f.eligibleNew)
						if want > c.D {
							want = c.D
						}
						if len(post) < want && len(f.members) <= c.D {
							res.violate("C06/fanout-not-topped-up", step, "fan-out of %s has %d members after the heartbeat, %d kept + %d eligible candidates, D=%d", tn, len(post), len(f.members), len(f.eligibleNew), c.D)
						}
						if len(post) > c.D && len(post) > len(f.members) {
							res.violate("C06/fanout-size", step, "fan-out of %s has %d members, D=%d", tn, len(post), c.D)
						}
						res.label("fanout-maintained")
					}
				})
				for key, ttl := range unwantedTTL {
					if ttl <= 1 {
						delete(unwantedTTL, key)
					} else {
						unwantedTTL[key] = ttl - 1
					}
				}
			}
		case "lpub":
			pubNo++
			data := dataOf(pubNo)
			s := snapshot(topic, data)
			pubAt := time.Now().UnixNano()
			var po []PubOpt
			if op.Local {
				po = append(po, WithLocalPublication(true))
			}
			if op.Batch && c.Router == "gossipsub" {
				var b MessageBatch
				if err := handle(op.T).AddToBatch(n.ctx, &b, []byte(data), po...); err != nil {
					res.violate("C06/publish-error", step, "AddToBatch failed: %v", err)
					continue
				}
				if err := n.ps.PublishBatch(&b); err != nil {
					res.violate("C06/publish-error", step, "PublishBatch failed: %v", err)
					continue
				}
				res.label("batch-publish")
			} else if err := handle(op.T).Publish(n.ctx, []byte(data), po...); err != nil {
				res.violate("C06/publish-error", step, "publish failed: %v", err)
				continue
			}
			n.settle()
			sent := n.drain()
			var orig *pb.Message
			if sub := subs[op.T]; sub != nil {
				select {
				case m := <-sub.ch:
					orig = m.Message
				default:
					res.violate("C06/own-message-not-delivered", step, "the node's own subscription did not get its message")
				}
			}
			judge(step, s, sent, orig, data, "", n.h.id, true, op.Local)
			if op.Local {
				res.label("local-only")
			}
			if c.Router == "gossipsub" && !op.Local && !c.Flood && !s.hasMesh && len(s.topicP) > 0 {
				modelLastPub[topic] = pubAt // a publication through the fanout path
			}
		case "rpub":
			// only messages for a topic the node is subscribed to are processed
			if subs[op.T] == nil {
				continue
			}
			var connected bool
			n.eval(func() { _, connected = n.ps.peers[pid] })
			if !connected {
				continue
			}
			pubNo++
			data := dataOf(pubNo)
			author := vfPeer(op.P)
			if op.Q >= 40 {
				author = vfPeer(op.Q)
			} else if op.Q > 0 {
				author = vfPeer(op.Q)
			}
			seq++
			m := vfSignedMsg(author, topic, seq, []byte(data))
			s := snapshot(topic, data)
			n.recv(op.P, vfMsgRPC(m))
			n.settle()
			sent := n.drain()
			select {
			case <-subs[op.T].ch:
			default:
				res.violate("C06/valid-message-not-delivered", step, "a valid message from peer %d was not delivered", op.P)
			}
			judge(step, s, sent, m, data, pid, author.ID, false, false)
		}
		n.drain()
		if len(res.Viols) > 0 {
			return
		}
	}
	res.NT = nontrivial
}

func vfProtoOf(s string) protocol.ID { return protocol.ID(s) }

func vfFirstWord(s string) string {
	for i := 0; i < len(s); i++ {
		if s[i] == ' ' || s[i] == '(' || s[i] == ';' {
			return s[:i]
		}
	}
	return s
}

func TestVfC06Recipients(t *testing.T) {
	vfCheck(t, "C06", c06Gen, c06Run)
}
