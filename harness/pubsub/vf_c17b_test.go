package pubsub

// C17 (b) — gossip stays within its protocol bounds and message-cache windows (DESIGN §5 C17b).
// Direct-driven gossipsub node with small, reachable limits; everything is judged on the wire per heartbeat epoch.

import (
	"fmt"
	"strings"
	"testing"
	"time"

	pb "github.com/libp2p/go-libp2p-pubsub/pb"
	"github.com/libp2p/go-libp2p/core/peer"
	"pgregory.net/rapid"
)

type c17Peer struct {
	Proto  int  `json:"proto"`
	Mesh   bool `json:"mesh,omitempty"`
	Direct bool `json:"direct,omitempty"`
	Low    bool `json:"low,omitempty"` // scored below the gossip threshold
}

type c17Op struct {
	Op  string `json:"op"`
	P   int    `json:"p,omitempty"`
	IDs []int  `json:"ids,omitempty"` // message numbers (existing or not yet existing)
	Big bool   `json:"big,omitempty"`
	Sz  int    `json:"sz,omitempty"` // with Big: 0 well above the IDONTWANT size threshold, 1 exactly on it; without: 1 one byte below it
	N   int    `json:"n,omitempty"`
}

type c17bCase struct {
	MaxIHaveLength, MaxIHaveMessages, MaxIDontWantLength, MaxIDontWantMessages int
	Retransmission, IDontWantTTL, HistoryLength, HistoryGossip                int
	FollowupMs                                                                int
	Peers                                                                     []c17Peer `json:"peers"`
	Ops                                                                       []c17Op   `json:"ops"`
}

const c17Threshold = 64 // IDONTWANT size threshold in bytes

func c17bGen(rt *rapid.T) c17bCase {
	var c c17bCase
	c.MaxIHaveLength = rapid.IntRange(2, 5).Draw(rt, "ihaveLen")
	c.MaxIHaveMessages = rapid.IntRange(1, 3).Draw(rt, "ihaveMsgs")
	c.MaxIDontWantLength = rapid.IntRange(1, 3).Draw(rt, "idwLen")
	c.MaxIDontWantMessages = rapid.IntRange(1, 3).Draw(rt, "idwMsgs")
	c.Retransmission = rapid.IntRange(1, 3).Draw(rt, "retx")
	c.IDontWantTTL = rapid.IntRange(1, 3).Draw(rt, "idwTTL")
	c.HistoryLength = rapid.IntRange(1, 5).Draw(rt, "histLen")
	c.HistoryGossip = rapid.IntRange(1, c.HistoryLength).Draw(rt, "histGossip")
	c.FollowupMs = rapid.SampledFrom([]int{500, 1500, 3000}).Draw(rt, "followup")
	np := rapid.IntRange(2, 7).Draw(rt, "npeers")
	for i := 0; i < np; i++ {
		c.Peers = append(c.Peers, c17Peer{Proto: rapid.SampledFrom([]int{2, 3, 3, 4, 0}).Draw(rt, "proto"), Mesh: rapid.Bool().Draw(rt, "mesh"),
			Direct: rapid.IntRange(0, 6).Draw(rt, "direct") == 0, Low: rapid.IntRange(0, 5).Draw(rt, "low") == 0})
	}
	n := rapid.IntRange(4, 45).Draw(rt, "nops")
	next := 0 // next fresh message number
	kinds := []string{"lpub", "fpub", "rpub", "rpub", "hb", "hb", "hb", "ihave", "ihave", "ihave", "iwant", "iwant", "iwant", "idontwant", "idontwant", "deliver", "deliver", "adv"}
	for i := 0; i < n; i++ {
		op := c17Op{Op: rapid.SampledFrom(kinds).Draw(rt, "op"), P: rapid.IntRange(1, np).Draw(rt, "p")}
		switch op.Op {
		case "lpub", "rpub", "fpub":
			next++
			op.IDs = []int{next}
			if op.Op == "fpub" {
				op.IDs = []int{5000 + next} // numbers no IHAVE / IWANT / IDONTWANT of the history refers to
			}
			op.Big = rapid.Bool().Draw(rt, "big")
			op.Sz = rapid.IntRange(0, 1).Draw(rt, "sz")
		case "ihave", "iwant", "idontwant":
			k := rapid.IntRange(1, 8).Draw(rt, "nids")
			for j := 0; j < k; j++ {
				// existing messages, and numbers that do not exist (yet): 1000+ are never published
				op.IDs = append(op.IDs, rapid.OneOf(rapid.IntRange(1, next+1), rapid.IntRange(1, next+3), rapid.IntRange(1000, 1012)).Draw(rt, "id"))
			}
			op.N = rapid.IntRange(1, 3).Draw(rt, "entries") // split over this many control entries
		case "deliver":
			op.IDs = []int{rapid.OneOf(rapid.IntRange(1000, 1012), rapid.IntRange(1, next+2)).Draw(rt, "id")}
			op.Big = rapid.Bool().Draw(rt, "big")
			op.Sz = rapid.IntRange(0, 1).Draw(rt, "sz")
		case "adv":
			op.N = rapid.SampledFrom([]int{100, 600, 1600, 3100}).Draw(rt, "ms")
		}
		c.Ops = append(c.Ops, op)
	}
	c.Ops = append(c.Ops, c17Op{Op: "adv", N: 3100}, c17Op{Op: "hb"})
	return c
}

func c17Data(k int, big bool, sz int) string {
	s := fmt.Sprintf("m%d|", k)
	switch {
	case big && sz == 0:
		s += strings.Repeat("B", 2*c17Threshold)
	case big: // exactly on the threshold
		s += strings.Repeat("B", c17Threshold-len(s))
	case sz == 1: // one byte below it
		s += strings.Repeat("b", c17Threshold-1-len(s))
	}
	return s
}

func c17Num(data string) int {
	var k int
	if i := strings.IndexByte(data, '|'); i >= 0 {
		data = data[:i]
	}
	fmt.Sscanf(data, "m%d", &k)
	return k
}

// the node's message ID: the message number only, so that an ID can be named before the message exists
func c17ID(m *pb.Message) string {
	d := string(m.Data)
	if i := strings.IndexByte(d, '|'); i >= 0 {
		d = d[:i]
	}
	return "id:" + d
}

func c17MID(k int) string { return fmt.Sprintf("id:m%d", k) }

func c17bRun(t *testing.T, c c17bCase) (res vfResult) {
	msg := vfBubble(t, func() { c17bRunInBubble(t, c, &res) })
	if msg != "" {
		res.violate("C17/panic", -1, "%s", msg)
	}
	return
}

func c17bRunInBubble(t *testing.T, c c17bCase, res *vfResult) {
	app := map[peer.ID]float64{}
	gp := DefaultGossipSubParams()
	gp.D, gp.Dlo, gp.Dhi, gp.Dscore, gp.Dout, gp.Dlazy = 8, 1, 16, 0, 0, 16
	gp.MaxIHaveLength, gp.MaxIHaveMessages = c.MaxIHaveLength, c.MaxIHaveMessages
	gp.MaxIDontWantLength, gp.MaxIDontWantMessages = c.MaxIDontWantLength, c.MaxIDontWantMessages
	gp.GossipRetransmission, gp.IDontWantMessageTTL = c.Retransmission, c.IDontWantTTL
	gp.HistoryLength, gp.HistoryGossip = c.HistoryLength, c.HistoryGossip
	gp.IWantFollowupTime = time.Duration(c.FollowupMs) * time.Millisecond
	gp.IDontWantMessageThreshold = c17Threshold
	if err := gp.validate(); err != nil {
		res.Inconclusive = err.Error()
		return
	}
	const gossipThr = -1.0
	opts := []Option{WithMessageIdFn(c17ID), WithFloodPublish(false),
		WithPeerScore(&PeerScoreParams{AppSpecificScore: func(p peer.ID) float64 { return app[p] }, AppSpecificWeight: 1, DecayInterval: time.Hour, DecayToZero: 0.01,
			BehaviourPenaltyDecay: 0.999, Topics: map[string]*TopicScoreParams{}},
			&PeerScoreThresholds{GossipThreshold: gossipThr, PublishThreshold: -50, GraylistThreshold: -100, AcceptPXThreshold: 100})}
	var direct []peer.AddrInfo
	for i, p := range c.Peers {
		if p.Direct {
			direct = append(direct, peer.AddrInfo{ID: vfPeer(i + 1).ID})
		}
	}
	if len(direct) > 0 {
		opts = append(opts, WithDirectPeers(direct))
	}
	n, err := newVfNode(t, vfNodeCfg{Router: "gossipsub", Params: &gp, ManualHeartbeat: true, Opts: opts})
	if err != nil {
		res.Inconclusive = err.Error()
		return
	}
	defer n.close()
	topic := vfTopic(0)
	h, _ := n.ps.Join(topic)
	topic1 := vfTopic(1) // never subscribed: publishing there goes through a fanout set
	h1, _ := n.ps.Join(topic1)
	sub, _ := h.Subscribe()
	_ = sub
	for i, p := range c.Peers {
		if p.Low {
			app[vfPeer(i+1).ID] = -2
		}
		n.addPeer(i+1, vfProto(p.Proto), 0, nil)
		n.recv(i+1, vfSubRPC(topic, true))
		n.recv(i+1, vfSubRPC(topic1, true))
		if p.Mesh && !p.Direct && !p.Low && vfIsMesh(vfProto(p.Proto)) {
			n.recv(i+1, vfGraftRPC(topic))
		}
	}
	n.drain()
	mesh := func() map[peer.ID]bool {
		var m map[peer.ID]bool
		n.eval(func() { m = copySet(n.gs.mesh[topic]) })
		return m
	}
	penalty := func(p peer.ID) float64 {
		var v float64
		n.eval(func() {
			n.gs.score.Lock()
			if st, ok := n.gs.score.peerStats[p]; ok {
				v = st.behaviourPenalty
			}
			n.gs.score.Unlock()
		})
		return v
	}
	unwantedNow := func(p peer.ID, mid string) bool {
		var ok bool
		n.eval(func() { _, ok = n.gs.unwanted[p][computeChecksum(mid)] })
		return ok
	}
	isLow := func(p int) bool { return c.Peers[p-1].Low }
	isDirect := func(p int) bool { return c.Peers[p-1].Direct }
	v12 := func(p int) bool { pr := vfProto(c.Peers[p-1].Proto); return pr == GossipSubID_v12 || pr == GossipSubID_v13 }
	meshCap := func(p int) bool { return vfIsMesh(vfProto(c.Peers[p-1].Proto)) }

	// model
	seen := map[int]bool{}              // message numbers that arrived or were published
	arrived := map[int]time.Time{}      // first arrival (validation) time
	age := map[int]int{}                // heartbeats since the node forwarded / published it (present = it did)
	served := map[[2]int]int{}          // (peer, msg) -> times requested through IWANT while retrievable
	type req struct {
		k  int
		at time.Time
	}
	requested := map[int][]req{} // peer -> every request we made to it (a message can be requested again later)
	askedEpoch := map[int]int{}         // ids we requested from the peer in this heartbeat epoch
	ihaveHonoured := map[int]int{}      // IHAVE RPCs of the peer answered with IWANT in this epoch
	idwRPCs := map[int]int{}            // IDONTWANT RPCs of the peer in this epoch
	idwLeft := map[[2]int]int{}         // (peer, msg) -> heartbeats the declaration may still be remembered (upper bound model)
	edge := false
	seq := uint64(9000)

	// judge the IDONTWANTs the node emits when a message arrives
	judgeEmittedIDW := func(step int, sent []vfSent, k int, big bool, sender int, pre map[peer.ID]bool) {
		got := map[int]bool{}
		for _, w := range sent {
			if w.RPC.Control == nil {
				continue
			}
			for _, idw := range w.RPC.Control.Idontwant {
				for _, id := range idw.MessageIDs {
					if id != c17MID(k) {
						res.violate("C17/idontwant-wrong-id", step, "IDONTWANT for %q emitted while handling message %d", id, k)
						continue
					}
					got[w.To] = true
					switch {
					case !big:
						res.violate("C17/idontwant-small-message", step, "IDONTWANT emitted for message %d which is below the size threshold", k)
					case w.To == sender:
						res.violate("C17/idontwant-to-sender", step, "IDONTWANT for message %d sent to peer %d, which sent it", k, w.To)
					case !pre[vfPeer(w.To).ID]:
						res.violate("C17/idontwant-to-non-mesh", step, "IDONTWANT for message %d sent to peer %d, which is not in the mesh", k, w.To)
					case !v12(w.To):
						res.violate("C17/idontwant-to-old-peer", step, "IDONTWANT for message %d sent to peer %d speaking %s", k, w.To, vfProto(c.Peers[w.To-1].Proto))
					}
				}
			}
		}
		if big {
			for p := 1; p <= len(c.Peers); p++ {
				if p != sender && pre[vfPeer(p).ID] && v12(p) && !got[p] {
					res.violate("C17/idontwant-missed", step, "mesh peer %d (v1.2+) got no IDONTWANT for the large message %d", p, k)
				}
			}
			res.label("idontwant-emitted")
		}
	}
	// copies of message k forwarded to peers that declared it unwanted
	judgeForward := func(step int, sent []vfSent, k int, pre map[peer.ID]bool) {
		for _, w := range sent {
			for _, m := range w.RPC.Publish {
				// (direct and floodsub peers are sent everything; the exception for IDONTWANT concerns mesh members)
				if c17Num(string(m.Data)) == k && idwLeft[[2]int{w.To, k}] > 0 && !isDirect(w.To) && meshCap(w.To) && pre[vfPeer(w.To).ID] && unwantedNow(vfPeer(w.To).ID, c17MID(k)) {
					res.violate("C17/sent-unwanted", step, "message %d forwarded to peer %d which declared it unwanted", k, w.To)
				}
			}
		}
	}

	for step, op := range c.Ops {
		pid := vfPeer(op.P).ID
		switch op.Op {
		case "adv":
			time.Sleep(time.Duration(op.N) * time.Millisecond)
		case "fpub":
			// a publication on the topic the node has not joined: fanout peers are in no mesh, nobody is told IDONTWANT
			k := op.IDs[0]
			if err := h1.Publish(n.ctx, []byte(c17Data(k, op.Big, op.Sz))); err != nil {
				res.violate("C17/publish-error", step, "%v", err)
				continue
			}
			n.settle()
			sent := n.drain()
			for _, w := range sent {
				if w.RPC.Control != nil && len(w.RPC.Control.Idontwant) > 0 {
					res.violate("C17/idontwant-to-non-mesh", step, "publishing message %d on a topic the node has not joined sent IDONTWANT to peer %d (a fanout peer is in no mesh)", k, w.To)
				}
			}
			res.label("fanout-publish")
		case "lpub":
			k := op.IDs[0]
			pre := mesh()
			if err := h.Publish(n.ctx, []byte(c17Data(k, op.Big, op.Sz))); err != nil {
				res.violate("C17/publish-error", step, "%v", err)
				continue
			}
			n.settle()
			sent := n.drain()
			// (a local publication is not an arrival "from anyone": it does not settle an IWANT promise)
			seen[k], age[k] = true, 0
			judgeEmittedIDW(step, sent, k, op.Big, 0, pre)
			judgeForward(step, sent, k, pre)
		case "rpub", "deliver":
			k := op.IDs[0]
			if op.Op == "deliver" && k < 1000 && !seen[k] {
				// numbers below 1000 are published by the publish operations only
				continue
			}
			pre := mesh()
			seq++
			wasSeen := seen[k]
			n.recv(op.P, vfMsgRPC(vfSignedMsg(vfPeer(33), topic, seq, []byte(c17Data(k, op.Big, op.Sz)))))
			n.settle()
			sent := n.drain()
			if _, ok := arrived[k]; !ok {
				arrived[k] = time.Now() // first arrival from a peer, new or duplicate
			}
			if !wasSeen {
				seen[k], age[k] = true, 0
				judgeEmittedIDW(step, sent, k, op.Big, op.P, pre)
				judgeForward(step, sent, k, pre)
			}
		case "ihave":
			// split the ids over op.N IHAVE entries of one RPC
			ctl := &pb.ControlMessage{}
			for e := 0; e < op.N; e++ {
				ih := &pb.ControlIHave{TopicID: &topic}
				for j, k := range op.IDs {
					if j%op.N == e {
						ih.MessageIDs = append(ih.MessageIDs, c17MID(k))
					}
				}
				ctl.Ihave = append(ctl.Ihave, ih)
			}
			n.recv(op.P, &RPC{RPC: pb.RPC{Control: ctl}})
			sent := n.drain()
			var want []string
			for _, w := range sent {
				if w.To == op.P && w.RPC.Control != nil {
					for _, iw := range w.RPC.Control.Iwant {
						want = append(want, iw.MessageIDs...)
					}
				}
			}
			if len(want) > 0 {
				ihaveHonoured[op.P]++
				if ihaveHonoured[op.P] > c.MaxIHaveMessages {
					res.violate("C17/too-many-ihave-honoured", step, "IHAVE number %d of peer %d in one heartbeat was followed (MaxIHaveMessages=%d)", ihaveHonoured[op.P], op.P, c.MaxIHaveMessages)
				}
				if ihaveHonoured[op.P] == c.MaxIHaveMessages {
					edge = true
				}
				if isLow(op.P) {
					res.violate("C17/ihave-below-threshold-followed", step, "IHAVE of peer %d (below the gossip threshold) was followed", op.P)
				}
			}
			dup := map[string]bool{}
			for _, id := range want {
				k := c17Num(strings.TrimPrefix(id, "id:"))
				if seen[k] {
					res.violate("C17/iwant-for-seen", step, "IWANT sent to peer %d for message %d which the node has already seen", op.P, k)
				}
				found := false
				for _, x := range op.IDs {
					if x == k {
						found = true
					}
				}
				if !found {
					res.violate("C17/iwant-not-advertised", step, "IWANT sent to peer %d for %q which it did not advertise", op.P, id)
				}
				if dup[id] {
					res.violate("C17/iwant-duplicate", step, "IWANT names %q twice", id)
				}
				dup[id] = true
				requested[op.P] = append(requested[op.P], req{k: k, at: time.Now()})
			}
			askedEpoch[op.P] += len(want)
			if askedEpoch[op.P] > c.MaxIHaveLength {
				res.violate("C17/too-many-ids-requested", step, "%d ids requested from peer %d in one heartbeat, MaxIHaveLength=%d", askedEpoch[op.P], op.P, c.MaxIHaveLength)
			}
			if askedEpoch[op.P] == c.MaxIHaveLength {
				edge = true
			}
		case "iwant":
			ctl := &pb.ControlMessage{}
			for e := 0; e < op.N; e++ {
				iw := &pb.ControlIWant{}
				for j, k := range op.IDs {
					if j%op.N == e {
						iw.MessageIDs = append(iw.MessageIDs, c17MID(k))
					}
				}
				ctl.Iwant = append(ctl.Iwant, iw)
			}
			unwantedBefore := map[int]bool{}
			for _, k := range op.IDs {
				unwantedBefore[k] = unwantedNow(pid, c17MID(k))
			}
			n.recv(op.P, &RPC{RPC: pb.RPC{Control: ctl}})
			sent := n.drain()
			got := map[int]int{}
			for _, w := range sent {
				if w.To == op.P {
					for _, m := range w.RPC.Publish {
						got[c17Num(string(m.Data))]++
					}
				}
			}
			asked := map[int]bool{}
			for _, k := range op.IDs {
				if asked[k] {
					continue // the same id twice in one RPC: requested twice, served at most once
				}
				asked[k] = true
				a, forwarded := age[k]
				retrievable := forwarded && a < c.HistoryLength
				nreq := 0
				for _, x := range op.IDs {
					if x == k {
						nreq++
					}
				}
				if retrievable && !unwantedBefore[k] {
					served[[2]int{op.P, k}] += nreq
				}
				cnt := served[[2]int{op.P, k}]
				switch {
				case got[k] > 1:
					res.violate("C17/served-twice", step, "message %d sent %d times in answer to one IWANT", k, got[k])
				case got[k] == 1 && !retrievable:
					res.violate("C17/served-outside-history", step, "IWANT of peer %d for message %d (age %d heartbeats, HistoryLength=%d, forwarded=%v) was served", op.P, k, a, c.HistoryLength, forwarded)
				case got[k] == 1 && isLow(op.P):
					res.violate("C17/iwant-below-threshold-served", step, "IWANT of peer %d (below the gossip threshold) was served", op.P)
				case got[k] == 1 && unwantedBefore[k]:
					res.violate("C17/served-unwanted", step, "peer %d was served message %d which it declared unwanted", op.P, k)
				case got[k] == 1 && cnt-nreq >= c.Retransmission:
					res.violate("C17/served-too-often", step, "peer %d was served message %d for the %d-th time (GossipRetransmission=%d)", op.P, k, cnt-nreq+1, c.Retransmission)
				case got[k] == 0 && retrievable && !isLow(op.P) && !unwantedBefore[k] && cnt <= c.Retransmission:
					res.violate("C17/not-served-inside-history", step, "IWANT of peer %d for message %d (age %d < HistoryLength=%d, request %d <= %d) was not served", op.P, k, a, c.HistoryLength, cnt, c.Retransmission)
				}
				if retrievable && (a == c.HistoryLength-1 || cnt == c.Retransmission || cnt == c.Retransmission+1) {
					edge = true
				}
			}
		case "idontwant":
			ctl := &pb.ControlMessage{}
			for e := 0; e < op.N; e++ {
				iw := &pb.ControlIDontWant{}
				for j, k := range op.IDs {
					if j%op.N == e {
						iw.MessageIDs = append(iw.MessageIDs, c17MID(k))
					}
				}
				ctl.Idontwant = append(ctl.Idontwant, iw)
			}
			before := map[int]bool{}
			for _, k := range op.IDs {
				before[k] = unwantedNow(pid, c17MID(k))
			}
			idwRPCs[op.P]++
			n.recv(op.P, &RPC{RPC: pb.RPC{Control: ctl}})
			n.drain()
			newly := 0
			distinct := map[int]bool{}
			for _, k := range op.IDs {
				if distinct[k] {
					continue
				}
				distinct[k] = true
				if unwantedNow(pid, c17MID(k)) {
					if !before[k] {
						newly++
					}
					idwLeft[[2]int{op.P, k}] = c.IDontWantTTL
				}
			}
			if idwRPCs[op.P] > c.MaxIDontWantMessages && newly > 0 {
				res.violate("C17/too-many-idontwant-honoured", step, "IDONTWANT number %d of peer %d in one heartbeat was honoured (MaxIDontWantMessages=%d)", idwRPCs[op.P], op.P, c.MaxIDontWantMessages)
			}
			if newly > c.MaxIDontWantLength {
				res.violate("C17/too-many-idontwant-ids", step, "%d ids of one IDONTWANT were remembered, MaxIDontWantLength=%d", newly, c.MaxIDontWantLength)
			}
			if idwRPCs[op.P] == c.MaxIDontWantMessages || len(distinct) == c.MaxIDontWantLength {
				edge = true
			}
			if !isLow(op.P) && idwRPCs[op.P] <= c.MaxIDontWantMessages && len(op.IDs) <= c.MaxIDontWantLength {
				// inside both limits everything declared is remembered
				for k := range distinct {
					if !unwantedNow(pid, c17MID(k)) {
						res.violate("C17/idontwant-not-honoured", step, "IDONTWANT of peer %d for message %d (inside the limits) was not remembered", op.P, k)
					}
				}
			}
		case "hb":
			penBefore := map[int]float64{}
			for p := 1; p <= len(c.Peers); p++ {
				penBefore[p] = penalty(vfPeer(p).ID)
			}
			preMesh := mesh()
			now := time.Now()
			n.heartbeat()
			sent := n.drain()
			postMesh := mesh()
			// what may be advertised: messages forwarded within the last HistoryGossip heartbeats
			adv := map[string]bool{}
			for k, a := range age {
				if a < c.HistoryGossip {
					adv[c17MID(k)] = true
				}
				if a == c.HistoryGossip-1 || a == c.HistoryGossip {
					edge = true
				}
			}
			for p := 1; p <= len(c.Peers); p++ {
				ppid := vfPeer(p).ID
				var ids []string
				nadv := 0
				for _, w := range sent {
					if w.To != p || w.RPC.Control == nil {
						continue
					}
					for _, ih := range w.RPC.Control.Ihave {
						if ih.GetTopicID() == topic1 {
							continue // gossip of the fanout topic: its own window, not modelled here
						}
						nadv++
						if len(ih.MessageIDs) > c.MaxIHaveLength {
							res.violate("C17/ihave-too-long", step, "IHAVE to peer %d carries %d ids, MaxIHaveLength=%d", p, len(ih.MessageIDs), c.MaxIHaveLength)
						}
						if ih.GetTopicID() != topic {
							res.violate("C17/ihave-wrong-topic", step, "IHAVE for topic %q", ih.GetTopicID())
						}
						ids = append(ids, ih.MessageIDs...)
					}
				}
				for _, id := range ids {
					if !adv[id] {
						k := c17Num(strings.TrimPrefix(id, "id:"))
						res.violate("C17/ihave-outside-gossip-window", step, "IHAVE to peer %d advertises message %d (age %d heartbeats, HistoryGossip=%d)", p, k, age[k], c.HistoryGossip)
					}
				}
				eligible := meshCap(p) && !isDirect(p) && !isLow(p) && !postMesh[ppid] && !preMesh[ppid]
				if len(ids) > 0 && (isDirect(p) || isLow(p) || postMesh[ppid] || !meshCap(p)) {
					res.violate("C17/ihave-to-ineligible", step, "IHAVE sent to peer %d (direct=%v, below gossip threshold=%v, mesh=%v, protocol %s)", p, isDirect(p), isLow(p), postMesh[ppid], vfProto(c.Peers[p-1].Proto))
				}
				if eligible && len(adv) > 0 {
					want := len(adv)
					if want > c.MaxIHaveLength {
						want = c.MaxIHaveLength
					}
					if len(ids) != want {
						res.violate("C17/ihave-missing", step, "peer %d was advertised %d ids; %d messages are in the gossip window (MaxIHaveLength=%d)", p, len(ids), len(adv), c.MaxIHaveLength)
					}
					if len(adv) >= c.MaxIHaveLength {
						edge = true
					}
				}
				// broken promises: a penalty needs a message we asked this peer for, overdue and not arrived from anyone
				if d := penalty(ppid) - penBefore[p]; d > 0 {
					overdue := 0
					for _, r := range requested[p] {
						if r.at.Add(gp.IWantFollowupTime).Before(now) {
							if at, ok := arrived[r.k]; !ok || at.After(r.at.Add(gp.IWantFollowupTime)) {
								overdue++
							}
						}
					}
					if int(d) > overdue {
						res.violate("C17/unjustified-promise-penalty", step, "peer %d penalised by %g for broken IWANT promises, but only %d message(s) requested from it are overdue and missing", p, d, overdue)
					}
					res.label("promise-penalty")
				}
			}
			// epoch rollover
			for k := range age {
				age[k]++
			}
			askedEpoch, ihaveHonoured, idwRPCs = map[int]int{}, map[int]int{}, map[int]int{}
			for key, left := range idwLeft {
				if left <= 1 {
					delete(idwLeft, key)
					if unwantedNow(vfPeer(key[0]).ID, c17MID(key[1])) {
						res.violate("C17/idontwant-not-forgotten", step, "peer %d's IDONTWANT for message %d is still remembered after its TTL of %d heartbeats", key[0], key[1], c.IDontWantTTL)
					}
					edge = true
				} else {
					idwLeft[key] = left - 1
				}
			}
			// requests older than the follow-up time that were judged are dropped from the model
			for p, lst := range requested {
				var keep []req
				for _, r := range lst {
					if !r.at.Add(gp.IWantFollowupTime).Before(now) {
						keep = append(keep, r)
					}
				}
				requested[p] = keep
			}
		}
		if len(res.Viols) > 0 {
			return
		}
	}
	res.NT = edge
	if edge {
		res.label("window-edge-or-cap")
	}
}

func TestVfC17bGossip(t *testing.T) {
	vfCheck(t, "C17", c17bGen, c17bRun)
}
