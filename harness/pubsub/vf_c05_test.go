package pubsub

// C05 — interest announcements converge to the true subscription state (DESIGN §5 C05).
//   TestVfC05Converge  NET: 2-4 real nodes + one skeleton observer; subscribe / cancel / relay / relay-cancel /
//                      topic close / connect / disconnect / single-stream reset histories; at every quiet point
//                      ListPeers on every node and the observer's folded view equal the model
//   TestVfC05Announce  DD: full outbound queues, retried announcements, hello packet ordering, Next after Cancel

import (
	"context"
	"errors"
	"fmt"
	"sort"
	"strings"
	"sync"
	"testing"
	"time"

	"github.com/libp2p/go-libp2p/core/network"
	"github.com/libp2p/go-libp2p/core/peer"
	"github.com/libp2p/go-libp2p/core/protocol"
	"pgregory.net/rapid"
)

type c05Op struct {
	Kind string `json:"k"`
	A    int    `json:"a,omitempty"`
	B    int    `json:"b,omitempty"`
	T    int    `json:"t,omitempty"`
	I    int    `json:"i,omitempty"`
	Ms   int    `json:"ms,omitempty"`
	F    bool   `json:"f,omitempty"` // join the topic fanout-only if this op has to join it
}

type c05Case struct {
	N       int      `json:"n"` // real nodes; the skeleton observer is node N
	Routers []string `json:"routers"`
	Queue   int      `json:"queue"`
	Lat     []int    `json:"lat"` // per directed link (a*(N+1)+b) latency in ms
	Edges   [][2]int `json:"edges"`
	Ops     []c05Op  `json:"ops"`
}

const c05Topics = 2

func c05Gen(rt *rapid.T) c05Case {
	c := c05Case{N: rapid.IntRange(2, 4).Draw(rt, "n"), Queue: rapid.SampledFrom([]int{1, 2, 32}).Draw(rt, "queue")}
	for i := 0; i < c.N; i++ {
		c.Routers = append(c.Routers, rapid.SampledFrom([]string{"gossipsub", "gossipsub", "floodsub", "randomsub"}).Draw(rt, "router"))
	}
	for i := 0; i < (c.N+1)*(c.N+1); i++ {
		c.Lat = append(c.Lat, rapid.SampledFrom([]int{1, 1, 2, 5, 20}).Draw(rt, "lat"))
	}
	// initial edges: a random subset incl. the observer
	for a := 0; a <= c.N; a++ {
		for b := a + 1; b <= c.N; b++ {
			if rapid.IntRange(0, 2).Draw(rt, "edge") > 0 {
				c.Edges = append(c.Edges, [2]int{a, b})
			}
		}
	}
	kinds := []string{"sub", "sub", "cancel", "relay", "unrelay", "unrelay2", "close", "connect", "disconnect", "reset", "reset", "wait", "quiet", "skelsub", "skelreopen", "publish", "flap", "gray", "ungray"}
	n := rapid.IntRange(1, 24).Draw(rt, "nops")
	// most histories concentrate on one node and one topic, so that reference counts go up and down repeatedly;
	// the generator tracks what is live so that cancellations hit live subscriptions and relays
	focus := rapid.Bool().Draw(rt, "focus")
	type item struct {
		sub  bool
		idx  int
		t    int
		live bool
	}
	items := make([][]*item, c.N)
	nsub, nrel := make([]int, c.N), make([]int, c.N)
	for i := 0; i < n; i++ {
		op := c05Op{Kind: rapid.SampledFrom(kinds).Draw(rt, "kind"), A: rapid.IntRange(0, c.N-1).Draw(rt, "a"), B: rapid.IntRange(0, c.N).Draw(rt, "b"),
			T: rapid.IntRange(0, c05Topics-1).Draw(rt, "t"), I: rapid.IntRange(0, 3).Draw(rt, "i"), F: rapid.IntRange(0, 4).Draw(rt, "f") == 0}
		if focus && rapid.IntRange(0, 3).Draw(rt, "onFocus") > 0 {
			op.A, op.T = 0, 0
		}
		switch op.Kind {
		case "wait":
			op.Ms = rapid.SampledFrom([]int{1, 3, 10, 50, 300, 1200}).Draw(rt, "ms")
		case "sub":
			items[op.A] = append(items[op.A], &item{sub: true, idx: nsub[op.A], t: op.T, live: true})
			nsub[op.A]++
		case "relay":
			items[op.A] = append(items[op.A], &item{idx: nrel[op.A], t: op.T, live: true})
			nrel[op.A]++
		case "cancel", "unrelay", "unrelay2":
			var live []*item
			for _, it := range items[op.A] {
				if it.live && it.sub == (op.Kind == "cancel") {
					live = append(live, it)
				}
			}
			if len(live) > 0 && rapid.IntRange(0, 4).Draw(rt, "hitLive") > 0 {
				it := rapid.SampledFrom(live).Draw(rt, "which")
				op.I, it.live = it.idx, false
			}
		}
		c.Ops = append(c.Ops, op)
	}
	// often: node 0 lets go of everything, in a generated order (counts return to zero by every route)
	if rapid.Bool().Draw(rt, "teardown") {
		var live []*item
		for _, it := range items[0] {
			if it.live {
				live = append(live, it)
			}
		}
		if len(live) > 0 {
			for _, it := range rapid.Permutation(live).Draw(rt, "order") {
				k := "unrelay"
				if it.sub {
					k = "cancel"
				}
				c.Ops = append(c.Ops, c05Op{Kind: k, A: 0, I: it.idx})
			}
		}
	}
	// late joiners and late stream resets: whoever gets a hello packet now must see the current state only
	for a := 0; a <= c.N; a++ {
		for b := a + 1; b <= c.N; b++ {
			switch rapid.IntRange(0, 3).Draw(rt, "late") {
			case 0:
				c.Ops = append(c.Ops, c05Op{Kind: "connect", A: a, B: b})
			case 1:
				if a < c.N {
					c.Ops = append(c.Ops, c05Op{Kind: "reset", A: a, B: b})
				}
			}
		}
	}
	return c
}

type c05Node struct {
	topics  map[int]*Topic
	fanout  map[int]bool
	subs    []*Subscription
	subT    []int
	subLive []bool
	relays  []RelayCancelFunc
	relT    []int
	relLive []bool
}

func (m *c05Node) interest(t int) bool {
	for i, l := range m.relLive {
		if l && m.relT[i] == t {
			return true
		}
	}
	if m.fanout[t] {
		return false
	}
	for i, l := range m.subLive {
		if l && m.subT[i] == t {
			return true
		}
	}
	return false
}

func (m *c05Node) outstanding(t int) bool {
	for i, l := range m.subLive {
		if l && m.subT[i] == t {
			return true
		}
	}
	for i, l := range m.relLive {
		if l && m.relT[i] == t {
			return true
		}
	}
	return false
}

func c05Run(t *testing.T, c c05Case) (res vfResult) {
	msg := vfBubble(t, func() { c05RunInBubble(t, c, &res) })
	if msg != "" {
		if strings.Contains(msg, "deadlock") {
			res.Inconclusive = "bubble did not drain: " + msg
		} else {
			res.violate("C05/panic", -1, "%s", msg)
		}
	}
	return
}

func c05RunInBubble(t *testing.T, c c05Case, res *vfResult) {
	N := c.N
	s, err := newVfSim(t, N+1, func(a, b int) int { return c.Lat[(a*(N+1)+b)%len(c.Lat)] })
	if err != nil {
		res.Inconclusive = err.Error()
		return
	}
	defer s.close()
	// gossipsub nodes score their peers with an application score the history can push below the graylist threshold
	var scoreMu sync.Mutex
	appScore := map[[2]int]float64{}
	for i := 0; i < N; i++ {
		nopts := []Option{WithPeerOutboundQueueSize(c.Queue)}
		if c.Routers[i] == "gossipsub" {
			i := i
			nopts = append(nopts, WithPeerScore(&PeerScoreParams{AppSpecificWeight: 1, AppSpecificScore: func(p peer.ID) float64 {
				scoreMu.Lock()
				defer scoreMu.Unlock()
				return appScore[[2]int{i, s.idx(p)}]
			}, DecayInterval: time.Second, DecayToZero: 0.01, Topics: map[string]*TopicScoreParams{}},
				&PeerScoreThresholds{GossipThreshold: -10, PublishThreshold: -20, GraylistThreshold: -30}))
		}
		if err := s.start(i, c.Routers[i], nopts...); err != nil {
			res.Inconclusive = err.Error()
			return
		}
	}
	skel := s.skeleton(N, GossipSubID_v12, GossipSubID_v11, GossipSubID_v10, FloodSubID)
	skelInterest := map[int]bool{}
	model := make([]*c05Node, N)
	for i := range model {
		model[i] = &c05Node{topics: map[int]*Topic{}, fanout: map[int]bool{}}
	}
	resets := map[[2]int]int{}

	edge := map[[2]int]bool{}
	norm := func(a, b int) [2]int {
		if a > b {
			a, b = b, a
		}
		return [2]int{a, b}
	}
	doConnect := func(a, b int) {
		if a == b || edge[norm(a, b)] {
			return
		}
		if err := s.connect(a, b); err != nil {
			res.Inconclusive = fmt.Sprintf("connect %d-%d: %v", a, b, err)
			return
		}
		edge[norm(a, b)] = true
	}
	for _, e := range c.Edges {
		doConnect(e[0], e[1])
	}

	topicOf := func(step int, a, tp int, fanoutOnly bool) *Topic {
		m := model[a]
		if th := m.topics[tp]; th != nil {
			return th
		}
		var opts []TopicOpt
		if fanoutOnly && c.Routers[a] == "gossipsub" {
			opts = append(opts, FanoutOnly())
		} else {
			fanoutOnly = false
		}
		th, err := s.nodes[a].ps.Join(vfTopic(tp), opts...)
		if err != nil {
			res.violate("C05/join-error", step, "node %d: Join(%s) failed: %v", a, vfTopic(tp), err)
			return nil
		}
		m.topics[tp] = th
		m.fanout[tp] = fanoutOnly
		if fanoutOnly {
			res.label("fanout-only-topic")
		}
		return th
	}

	quiet := func(step int) {
		// announce retries <= 1 s each, dead-peer back-off <= 10 s, identify and hello round trips
		s.wait(16 * time.Second)
		s.wait(2 * time.Second)
		// precondition: every connected pair of hosts is known to pubsub on both sides (identify completed)
		for a := 0; a <= N; a++ {
			for b := a + 1; b <= N; b++ {
				if edge[norm(a, b)] != s.connected(a, b) {
					res.Inconclusive = fmt.Sprintf("hosts %d-%d: connection state differs from the script (%v)", a, b, edge[norm(a, b)])
					return
				}
			}
		}
		for i := 0; i < N; i++ {
			peers := s.pubsubPeers(i)
			for tp := 0; tp < c05Topics; tp++ {
				want := map[int]bool{}
				for j := 0; j <= N; j++ {
					if j == i || !edge[norm(i, j)] {
						continue
					}
					if j == N {
						if skelInterest[tp] && skel.hasOut(i) {
							want[j] = true
						}
					} else if model[j].interest(tp) {
						want[j] = true
					}
				}
				got := map[int]bool{}
				for _, p := range s.nodes[i].ps.ListPeers(vfTopic(tp)) {
					got[s.idx(p)] = true
				}
				for j := range want {
					if !got[j] {
						why := ""
						if !peers[s.nodes[j].id] {
							why = " (the node has no outbound queue for that peer)"
						}
						key := "C05/listpeers-missing"
						if resets[[2]int{i, j}] > 0 || resets[[2]int{j, i}] > 0 {
							key = "C05/listpeers-missing:after-stream-reset"
						}
						res.violate(key, step, "node %d: ListPeers(%s) misses node %d, which is connected and interested%s; got %v", i, vfTopic(tp), j, why, c05Keys(got))
					}
				}
				for j := range got {
					if !want[j] {
						key := "C05/listpeers-stale"
						res.violate(key, step, "node %d: ListPeers(%s) contains node %d, which is %s; want %v", i, vfTopic(tp), j, c05Why(edge[norm(i, j)]), c05Keys(want))
					}
				}
			}
			// the observer's view of node i: fold of the latest stream it has from i
			if edge[norm(i, N)] {
				view, streams := skel.foldFrom(i)
				if streams == 0 {
					res.violate("C05/observer-no-stream", step, "node %d is connected to the observer but has no open pubsub stream to it", i)
					continue
				}
				for tp := 0; tp < c05Topics; tp++ {
					if view[vfTopic(tp)] != model[i].interest(tp) {
						res.violate("C05/observer-view", step, "the observer's view of node %d for %s is %v (hello packet + announcements in wire order), the node's interest is %v", i, vfTopic(tp), view[vfTopic(tp)], model[i].interest(tp))
					}
				}
			}
		}
	}

	for step, op := range c.Ops {
		if res.Inconclusive != "" || len(res.Viols) > 0 {
			break
		}
		a := op.A
		m := model[a]
		switch op.Kind {
		case "sub":
			if th := topicOf(step, a, op.T, op.F); th != nil {
				sub, err := th.Subscribe()
				if err != nil {
					res.violate("C05/subscribe-error", step, "node %d: Subscribe failed: %v", a, err)
					break
				}
				if !m.outstanding(op.T) && len(m.subT) > 0 {
					res.label("interest-rises-again")
					res.NT = true
				}
				m.subs, m.subT, m.subLive = append(m.subs, sub), append(m.subT, op.T), append(m.subLive, true)
			}
		case "cancel":
			if len(m.subs) > 0 {
				i := op.I % len(m.subs)
				m.subs[i].Cancel()
				m.subLive[i] = false
			}
		case "relay":
			if th := topicOf(step, a, op.T, op.F); th != nil {
				r, err := th.Relay()
				if m.fanout[op.T] {
					if !errors.Is(err, ErrFanoutOnlyTopic) {
						res.violate("C05/relay-on-fanout-only", step, "node %d: Relay on a fanout-only topic returned %v", a, err)
					}
					break
				}
				if err != nil {
					res.violate("C05/relay-error", step, "node %d: Relay failed: %v", a, err)
					break
				}
				m.relays, m.relT, m.relLive = append(m.relays, r), append(m.relT, op.T), append(m.relLive, true)
			}
		case "unrelay", "unrelay2":
			if len(m.relays) > 0 {
				i := op.I % len(m.relays)
				m.relays[i]()
				if op.Kind == "unrelay2" {
					m.relays[i]() // cancelling twice releases one reference only
					res.label("relay-cancelled-twice")
				}
				m.relLive[i] = false
			}
		case "close":
			if th := m.topics[op.T]; th != nil {
				// Cancel is asynchronous: let the cancellations reach the event loop first
				s.wait(50 * time.Millisecond)
				err := th.Close()
				if err == nil {
					if m.outstanding(op.T) {
						res.violate("C05/close-with-outstanding", step, "node %d: Topic.Close succeeded with live subscriptions or relays", a)
					}
					delete(m.topics, op.T)
					delete(m.fanout, op.T)
				}
			}
		case "connect":
			doConnect(op.A, op.B)
		case "disconnect":
			if op.A != op.B && edge[norm(op.A, op.B)] {
				s.disconnect(op.A, op.B)
				delete(edge, norm(op.A, op.B))
				if op.B == N {
					skel.closeOut(op.A, true) // the observer's stream died with the connection
				}
				res.label("disconnect")
				// let both sides notice before anything else happens to this pair
				s.wait(200 * time.Millisecond)
			}
		case "flap":
			// the connection between two real nodes goes down and comes back 1-7 times in a row
			if op.A != op.B && op.B < N && edge[norm(op.A, op.B)] {
				for k := 0; k <= op.I*2; k++ {
					s.disconnect(op.A, op.B)
					s.wait(400 * time.Millisecond)
					if err := s.connect(op.A, op.B); err != nil {
						res.Inconclusive = fmt.Sprintf("connect %d-%d: %v", op.A, op.B, err)
						break
					}
					s.wait(600 * time.Millisecond)
				}
				res.label("link-flapped")
				res.NT = true
			}
		case "reset":
			// reset node A's outbound pubsub stream to B, the connection stays up
			if op.A != op.B && edge[norm(op.A, op.B)] && resets[[2]int{op.A, op.B}] < 3 {
				var n int
				if op.B == N {
					n = skel.resetIn(op.A)
				} else {
					n = c05ResetInbound(s, op.B, op.A)
				}
				if n > 0 {
					resets[[2]int{op.A, op.B}]++
					res.label("stream-reset")
					res.NT = true
				}
			}
		case "skelsub":
			if edge[norm(a, N)] {
				if !skel.hasOut(a) {
					// the observer answers with the protocol the node speaks to it
					if err := skel.openOut(a, c05SkelProto(c.Routers[a])); err != nil {
						break
					}
					// like any peer, the observer starts a stream with its current subscriptions
					for tp := 0; tp < c05Topics; tp++ {
						if skelInterest[tp] {
							skel.send(a, &vfSubRPC(vfTopic(tp), true).RPC)
						}
					}
				}
				want := !skelInterest[op.T]
				// the observer announces to every node it has a stream to
				for j := 0; j < N; j++ {
					if skel.hasOut(j) {
						skel.send(j, &vfSubRPC(vfTopic(op.T), want).RPC)
					}
				}
				skelInterest[op.T] = want
				res.label("observer-subscribes")
			}
		case "gray", "ungray":
			// node A's opinion of peer B drops below the graylist threshold (its RPCs are ignored, its subscriptions are not)
			if op.A != op.B && c.Routers[op.A] == "gossipsub" {
				scoreMu.Lock()
				if op.Kind == "gray" {
					appScore[[2]int{op.A, op.B}] = -100
					res.label("peer-graylisted")
					res.NT = true
				} else {
					delete(appScore, [2]int{op.A, op.B})
				}
				scoreMu.Unlock()
			}
		case "skelreopen":
			// the observer drops a topic by starting a new stream to node A whose first packet no longer names it, while
			// its old stream to A is still open: the new stream replaces the old one and what was learnt on that
			if edge[norm(a, N)] && skel.hasOut(a) && skelInterest[op.T] {
				// the old stream is established at the node before the new one is opened (two streams opened in the same
				// instant can reach the node in either order, and it would rightly keep the one that arrived last)
				s.wait(300 * time.Millisecond)
				for j := 0; j < N; j++ {
					if j != a && skel.hasOut(j) {
						skel.send(j, &vfSubRPC(vfTopic(op.T), false).RPC)
					}
				}
				if err := skel.reopenOut(a, c05SkelProto(c.Routers[a])); err != nil {
					res.Inconclusive = fmt.Sprintf("observer could not open a second stream: %v", err)
					break
				}
				skelInterest[op.T] = false
				// (streams are negotiated lazily: the node sees the new stream with its first bytes, so the first packet
				// always carries something - a topic nobody else cares about)
				skel.send(a, &vfSubRPC("observer-only", true).RPC)
				for tp := 0; tp < c05Topics; tp++ {
					if skelInterest[tp] {
						skel.send(a, &vfSubRPC(vfTopic(tp), true).RPC)
					}
				}
				res.label("observer-replaces-its-stream")
				res.NT = true
			}
		case "publish":
			if th := m.topics[op.T]; th != nil {
				th.Publish(context.Background(), []byte(fmt.Sprintf("m-%d", step)))
			}
		case "wait":
			s.wait(time.Duration(op.Ms) * time.Millisecond)
		case "quiet":
			quiet(step)
		}
	}
	if res.Inconclusive == "" && len(res.Viols) == 0 {
		quiet(len(c.Ops))
	}
	// cancelled subscriptions: buffered messages, then ErrSubscriptionCancelled
	if res.Inconclusive == "" && len(res.Viols) == 0 {
		for a, m := range model {
			for i, sub := range m.subs {
				if m.subLive[i] {
					continue
				}
				n := 0
				for {
					ctx, cancel := context.WithTimeout(context.Background(), time.Second)
					_, err := sub.Next(ctx)
					cancel()
					if err == nil {
						n++
						if n > 64 {
							res.violate("C05/next-after-cancel", len(c.Ops), "node %d: a cancelled subscription keeps returning messages", a)
							break
						}
						continue
					}
					if !errors.Is(err, ErrSubscriptionCancelled) {
						res.violate("C05/next-after-cancel", len(c.Ops), "node %d: Next on a cancelled and drained subscription returned %v after %d buffered messages", a, err, n)
					}
					break
				}
			}
		}
	}
	res.label(fmt.Sprintf("nodes:%d", N))
	res.label(fmt.Sprintf("queue:%d", c.Queue))
}

func c05SkelProto(router string) protocol.ID {
	if router == "gossipsub" {
		return GossipSubID_v11
	}
	return FloodSubID
}

func c05Why(connected bool) string {
	if !connected {
		return "not connected"
	}
	return "connected but not interested"
}

func c05Keys(m map[int]bool) []int {
	var out []int
	for k := range m {
		out = append(out, k)
	}
	sort.Ints(out)
	return out
}

// c05ResetInbound resets the inbound pubsub stream node `at` has from node `from` (that is `from`'s outbound
// stream), as a transport-level stream reset would; the connection is untouched.
func c05ResetInbound(s *vfSim, at, from int) int {
	ps := s.nodes[at].ps
	ps.inboundStreamsMx.Lock()
	h, ok := ps.inboundStreams[s.nodes[from].id]
	ps.inboundStreamsMx.Unlock()
	if !ok || h.s == nil {
		return 0
	}
	h.s.Reset()
	return 1
}

var _ = network.Connected
var _ peer.ID

func TestVfC05Converge(t *testing.T) {
	vfCheck(t, "C05", c05Gen, c05Run)
}
