package pubsub

// C02 (a) — the seen cache alone, both strategies, through the public timecache API (DESIGN §5 C02a).
// Two-sided bound taken from the statement: an ID is remembered for at least the TTL (counted from the first
// sighting under first-seen, from the latest under last-seen) and is forgotten once TTL plus one sweep
// interval has passed without qualifying activity. Between the two bounds either answer is allowed and the
// model follows the implementation's answer.

import (
	"testing"
	"time"

	"github.com/libp2p/go-libp2p-pubsub/timecache"
	"pgregory.net/rapid"
)

const c02SweepInterval = time.Minute // timecache's background sweep period, named by the statement ("one sweep interval")

type c02aOp struct {
	Op string `json:"op"` // add | has | adv
	ID int    `json:"id,omitempty"`
	S  int    `json:"s,omitempty"` // seconds
}

type c02aCase struct {
	Last bool     `json:"last_seen"`
	TTLs int      `json:"ttl_s"`
	Ops  []c02aOp `json:"ops"`
}

func c02aGen(rt *rapid.T) c02aCase {
	c := c02aCase{Last: rapid.Bool().Draw(rt, "last"), TTLs: rapid.SampledFrom([]int{1, 2, 30, 59, 60, 61, 90, 120, 600}).Draw(rt, "ttl")}
	n := rapid.IntRange(1, 60).Draw(rt, "n")
	for i := 0; i < n; i++ {
		op := c02aOp{Op: rapid.SampledFrom([]string{"add", "add", "has", "has", "adv", "adv"}).Draw(rt, "op"), ID: rapid.IntRange(0, 3).Draw(rt, "id")}
		if op.Op == "adv" {
			op.S = rapid.OneOf(rapid.IntRange(0, 5), rapid.IntRange(0, 70), rapid.IntRange(0, 180),
				rapid.SampledFrom([]int{c.TTLs - 1, c.TTLs, c.TTLs + 1, c.TTLs + 59, c.TTLs + 60, c.TTLs + 61})).Draw(rt, "s")
			if op.S < 0 {
				op.S = 0
			}
		}
		c.Ops = append(c.Ops, op)
	}
	return c
}

func c02aRun(t *testing.T, c c02aCase) (res vfResult) {
	msg := vfBubble(t, func() {
		strat := timecache.Strategy_FirstSeen
		if c.Last {
			strat = timecache.Strategy_LastSeen
		}
		ttl := time.Duration(c.TTLs) * time.Second
		tc := timecache.NewTimeCacheWithStrategy(strat, ttl)
		defer tc.Done()
		// operations happen half a second off the sweep instants, so no outcome depends on how an operation
		// and a sweep falling into the same instant are ordered
		time.Sleep(500 * time.Millisecond)
		type entry struct{ expiry time.Time }
		model := map[int]*entry{}
		ids := []string{"a", "b", "c", "d"}
		afterExpiry, mayZone := false, false
		for step, op := range c.Ops {
			now := time.Now()
			e := model[op.ID]
			zone := "absent" // must be absent
			if e != nil {
				switch {
				case now.Before(e.expiry):
					zone = "present"
				case now.After(e.expiry.Add(c02SweepInterval)):
					zone = "absent"
					afterExpiry = true
				default:
					zone = "may"
					mayZone = true
				}
			}
			switch op.Op {
			case "adv":
				time.Sleep(time.Duration(op.S) * time.Second)
			case "add":
				fresh := tc.Add(ids[op.ID])
				switch zone {
				case "present":
					if fresh {
						res.violate("C02/forgotten-early", step, "Add(%s) reports a new id %v before its expiry (ttl %v, %s)", ids[op.ID], e.expiry.Sub(now), ttl, stratName(c.Last))
					}
					if c.Last {
						e.expiry = now.Add(ttl)
					}
				case "absent":
					if !fresh {
						res.violate("C02/remembered-too-long", step, "Add(%s) reports a known id although ttl %v + one sweep interval passed since its expiry (%s)", ids[op.ID], ttl, stratName(c.Last))
					}
					model[op.ID] = &entry{expiry: now.Add(ttl)}
				case "may":
					if fresh {
						model[op.ID] = &entry{expiry: now.Add(ttl)}
					} else if c.Last {
						e.expiry = now.Add(ttl)
					}
				}
			case "has":
				got := tc.Has(ids[op.ID])
				switch zone {
				case "present":
					if !got {
						res.violate("C02/forgotten-early", step, "Has(%s) is false %v before its expiry (ttl %v, %s)", ids[op.ID], e.expiry.Sub(now), ttl, stratName(c.Last))
					}
					if c.Last {
						e.expiry = now.Add(ttl)
					}
				case "absent":
					if got {
						res.violate("C02/remembered-too-long", step, "Has(%s) is true although ttl %v + one sweep interval passed since its expiry (%s)", ids[op.ID], ttl, stratName(c.Last))
					}
					delete(model, op.ID)
				case "may":
					if !got {
						delete(model, op.ID)
					} else if c.Last {
						e.expiry = now.Add(ttl)
					}
				}
			}
			if len(res.Viols) > 0 {
				return
			}
		}
		res.NT = afterExpiry || mayZone
		if afterExpiry {
			res.label("op-after-expiry")
		}
		if mayZone {
			res.label("op-between-ttl-and-sweep")
		}
		res.label(stratName(c.Last))
	})
	if msg != "" {
		res.violate("C02/harness-bubble", -1, "%s", msg)
	}
	return
}

func stratName(last bool) string {
	if last {
		return "last-seen"
	}
	return "first-seen"
}

func TestVfC02aTimeCache(t *testing.T) {
	vfCheck(t, "C02", c02aGen, c02aRun)
}
