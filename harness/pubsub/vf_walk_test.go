package pubsub

// Reflection walk over the object graph hanging off a *PubSub, looking for a peer ID (DESIGN §5 C13): catches
// per-peer state in maps that an explicit list does not know about yet. Read-only; unexported fields are read
// through unsafe pointers. Only values whose types come from this module (and plain containers of them) are
// followed, so the stub host, the peerstore, contexts and loggers are not entered.

import (
	"fmt"
	"reflect"
	"strings"
	"sync"
	"unsafe"

	"github.com/libp2p/go-libp2p/core/peer"
)

const vfModulePath = "github.com/libp2p/go-libp2p-pubsub"

type vfWalker struct {
	target  peer.ID
	seen    map[uintptr]bool
	hits    []string
	budget  int
	skipTyp map[string]bool
}

// vfFindPeer returns the paths (field / key chains) at which the peer ID occurs under root.
func vfFindPeer(root any, target peer.ID) []string {
	w := &vfWalker{target: target, seen: map[uintptr]bool{}, budget: 2_000_000,
		skipTyp: map[string]bool{"*pubsub.vfHost": true, "*pubsub.vfRaw": true, "*pubsub.vfMemTracer": true, "*pubsub.vfConnMgr": true}}
	w.walk(reflect.ValueOf(root), "ps", 0)
	return w.hits
}

func vfOwnType(t reflect.Type) bool {
	for t.Kind() == reflect.Ptr || t.Kind() == reflect.Slice || t.Kind() == reflect.Array {
		t = t.Elem()
	}
	p := t.PkgPath()
	return strings.HasPrefix(p, vfModulePath)
}

func (w *vfWalker) isTarget(v reflect.Value) bool {
	if v.Kind() == reflect.String && v.Len() == len(w.target) && v.Len() > 0 {
		return v.String() == string(w.target)
	}
	if v.Kind() == reflect.Slice && v.Type().Elem().Kind() == reflect.Uint8 && v.Len() == len(w.target) && v.Len() > 0 {
		return string(v.Bytes()) == string(w.target)
	}
	return false
}

func (w *vfWalker) walk(v reflect.Value, path string, depth int) {
	if !v.IsValid() || depth > 40 || len(w.hits) >= 8 {
		return
	}
	w.budget--
	if w.budget < 0 {
		return
	}
	if w.isTarget(v) {
		w.hits = append(w.hits, path)
		return
	}
	switch v.Kind() {
	case reflect.Ptr:
		if v.IsNil() {
			return
		}
		if w.skipTyp[v.Type().String()] {
			return
		}
		if w.seen[v.Pointer()] {
			return
		}
		w.seen[v.Pointer()] = true
		w.walk(v.Elem(), path, depth+1)
	case reflect.Interface:
		if v.IsNil() {
			return
		}
		e := v.Elem()
		if w.skipTyp[e.Type().String()] {
			return
		}
		// follow interface values only into this module's types (routers, tracers, caches ...) and plain data
		if vfOwnType(e.Type()) || e.Kind() == reflect.String || e.Kind() == reflect.Map || e.Kind() == reflect.Slice {
			w.walk(e, path+"("+e.Type().String()+")", depth+1)
		}
	case reflect.Struct:
		t := v.Type()
		if !vfOwnType(t) && t.PkgPath() != "" {
			return // somebody else's struct (mutexes, contexts, time, hosts, loggers)
		}
		for i := 0; i < v.NumField(); i++ {
			f := v.Field(i)
			ft := t.Field(i)
			if ft.Type.Kind() == reflect.Chan || ft.Type.Kind() == reflect.Func {
				continue
			}
			if !f.CanInterface() {
				if !f.CanAddr() {
					continue
				}
				f = reflect.NewAt(ft.Type, unsafe.Pointer(f.UnsafeAddr())).Elem()
			}
			w.walk(f, path+"."+ft.Name, depth+1)
		}
	case reflect.Map:
		if v.IsNil() {
			return
		}
		if w.seen[v.Pointer()] {
			return
		}
		w.seen[v.Pointer()] = true
		it := v.MapRange()
		for it.Next() {
			k, e := it.Key(), it.Value()
			if w.isTarget(k) {
				w.hits = append(w.hits, path+"[<peer>]")
				if len(w.hits) >= 8 {
					return
				}
				continue
			}
			kp := path + "[" + vfShort(k) + "]"
			if k.Kind() == reflect.Ptr || k.Kind() == reflect.Struct || k.Kind() == reflect.Interface {
				w.walk(k, kp+"(key)", depth+1)
			}
			w.walk(e, kp, depth+1)
		}
	case reflect.Slice, reflect.Array:
		if v.Kind() == reflect.Slice && v.IsNil() {
			return
		}
		et := v.Type().Elem()
		if et.Kind() == reflect.Uint8 {
			return
		}
		for i := 0; i < v.Len() && i < 10000; i++ {
			w.walk(v.Index(i), fmt.Sprintf("%s[%d]", path, i), depth+1)
		}
	}
}

func vfShort(v reflect.Value) string {
	switch v.Kind() {
	case reflect.String:
		s := v.String()
		if len(s) > 12 {
			s = fmt.Sprintf("%x…", s[:6])
		}
		return s
	case reflect.Ptr:
		return fmt.Sprintf("%s@%x", v.Type().String(), v.Pointer())
	}
	return v.Type().String()
}

// vfHeldLocks walks the module-owned object graph under the roots and tries every sync.Mutex / sync.RWMutex it can
// address; it returns the paths of those that are held. Only meaningful at a quiescent point (no API call in
// flight, every library goroutine parked), where a held lock means a lock that was never released.
func vfHeldLocks(roots map[string]any) []string {
	w := &vfLockWalker{seen: map[uintptr]bool{}, budget: 500_000}
	for name, r := range roots {
		w.walk(reflect.ValueOf(r), name, 0)
	}
	return w.held
}

type vfLockWalker struct {
	seen   map[uintptr]bool
	held   []string
	budget int
	probed int
}

var (
	vfMutexType   = reflect.TypeOf(sync.Mutex{})
	vfRWMutexType = reflect.TypeOf(sync.RWMutex{})
)

func (w *vfLockWalker) walk(v reflect.Value, path string, depth int) {
	if !v.IsValid() || depth > 30 {
		return
	}
	w.budget--
	if w.budget < 0 {
		return
	}
	switch v.Kind() {
	case reflect.Ptr:
		if v.IsNil() || w.seen[v.Pointer()] {
			return
		}
		if s := v.Type().String(); s == "*pubsub.vfHost" || s == "*pubsub.vfRaw" || s == "*pubsub.vfMemTracer" || s == "*pubsub.vfConnMgr" {
			return
		}
		w.seen[v.Pointer()] = true
		w.walk(v.Elem(), path, depth+1)
	case reflect.Interface:
		if v.IsNil() {
			return
		}
		e := v.Elem()
		if vfOwnType(e.Type()) {
			w.walk(e, path+"("+e.Type().String()+")", depth+1)
		}
	case reflect.Struct:
		t := v.Type()
		if t == vfMutexType {
			if v.CanAddr() {
				w.probed++
				m := (*sync.Mutex)(unsafe.Pointer(v.UnsafeAddr()))
				if m.TryLock() {
					m.Unlock()
				} else {
					w.held = append(w.held, path)
				}
			}
			return
		}
		if t == vfRWMutexType {
			if v.CanAddr() {
				w.probed++
				m := (*sync.RWMutex)(unsafe.Pointer(v.UnsafeAddr()))
				if m.TryLock() {
					m.Unlock()
				} else {
					w.held = append(w.held, path)
				}
			}
			return
		}
		if !vfOwnType(t) && t.PkgPath() != "" {
			return
		}
		for i := 0; i < v.NumField(); i++ {
			ft := t.Field(i)
			if ft.Type.Kind() == reflect.Chan || ft.Type.Kind() == reflect.Func {
				continue
			}
			w.walk(v.Field(i), path+"."+ft.Name, depth+1)
		}
	case reflect.Map:
		if v.IsNil() || w.seen[v.Pointer()] {
			return
		}
		w.seen[v.Pointer()] = true
		it := v.MapRange()
		for it.Next() {
			k, e := it.Key(), it.Value()
			if k.Kind() == reflect.Ptr {
				w.walk(k, path+"[key "+vfShort(k)+"]", depth+1)
			}
			if e.Kind() == reflect.Ptr || e.Kind() == reflect.Interface || e.Kind() == reflect.Map || e.Kind() == reflect.Slice {
				w.walk(e, path+"["+vfShort(k)+"]", depth+1)
			}
		}
	case reflect.Slice, reflect.Array:
		if v.Kind() == reflect.Slice && (v.IsNil() || v.Type().Elem().Kind() == reflect.Uint8) {
			return
		}
		for i := 0; i < v.Len() && i < 2000; i++ {
			w.walk(v.Index(i), fmt.Sprintf("%s[%d]", path, i), depth+1)
		}
	}
}
