package pubsub

// C16 — a blacklisted peer can neither inject messages nor receive traffic (DESIGN §5 C16).
// NET: node N (real) with three skeleton peers: the target X, an honest forwarder Y that relays messages authored
// by X, and a leaf Z that records what N forwards. The blacklisting (BlacklistPeer, or Add on the configured
// blacklist inside the event loop; map or time-cached implementation) happens at a generated position of X's
// life cycle; afterwards X publishes, Y forwards messages authored by X, N publishes, X reconnects and reopens streams.

import (
	"context"
	"fmt"
	"strings"
	"testing"
	"testing/synctest"
	"time"

	pb "github.com/libp2p/go-libp2p-pubsub/pb"
	"github.com/libp2p/go-libp2p/core/peer"
	"github.com/libp2p/go-libp2p/core/protocol"
	"pgregory.net/rapid"
)

type c16Op struct {
	Kind string `json:"k"`
	Ms   int    `json:"ms,omitempty"`
	T    int    `json:"t,omitempty"`
}

type c16Case struct {
	Router  string  `json:"router"`
	Impl    string  `json:"impl"`  // map | timecache
	Route   string  `json:"route"` // api | direct
	XProto  int     `json:"xproto"`
	Lat     [3]int  `json:"lat"` // one-way latency N<->X, N<->Y, N<->Z in ms
	Pos     string  `json:"pos"`
	DelayMs int     `json:"delay_ms"`
	Stream  int     `json:"stream_ms"` // virtual time the node's NewStream calls take
	Resets  int     `json:"resets"`    // position "respawning": how often X resets the node's stream before the moment
	Burst   bool    `json:"burst"`     // the node publishes a burst (and to its fanout topics) immediately before the moment
	Policy  int     `json:"policy"`    // signature policy of the node: 0 StrictSign (default), 1 LaxSign, 2 LaxNoSign
	Pre     []c16Op `json:"pre"`
	Post    []c16Op `json:"post"`
}

const (
	c16N = 0
	c16X = 1
	c16Y = 2
	c16Z = 3
)

var c16Positions = []string{"before-connect", "connecting", "connecting", "settled", "validating", "disconnected", "respawning"}

func c16Gen(rt *rapid.T) c16Case {
	c := c16Case{
		Router: rapid.SampledFrom([]string{"gossipsub", "gossipsub", "floodsub", "randomsub"}).Draw(rt, "router"),
		Impl:   rapid.SampledFrom([]string{"map", "timecache"}).Draw(rt, "impl"),
		Route:  rapid.SampledFrom([]string{"api", "api", "direct"}).Draw(rt, "route"),
		Pos:    rapid.SampledFrom(c16Positions).Draw(rt, "pos"),
	}
	c.XProto = rapid.SampledFrom([]int{0, 2, 3}).Draw(rt, "xproto") // floodsub, gossipsub v1.1, v1.2
	for i := range c.Lat {
		c.Lat[i] = rapid.SampledFrom([]int{1, 2, 5, 20, 50}).Draw(rt, "lat")
	}
	c.Stream = rapid.SampledFrom([]int{0, 0, 20, 100, 400}).Draw(rt, "stream")
	c.DelayMs = rapid.IntRange(0, 12*c.Lat[0]+5+c.Stream).Draw(rt, "delay")
	c.Resets = rapid.IntRange(1, 3).Draw(rt, "resets")
	c.Burst = rapid.Bool().Draw(rt, "burst")
	c.Policy = rapid.SampledFrom([]int{0, 0, 1, 2}).Draw(rt, "policy")
	kinds := []string{"xpub", "xpub", "ypubx", "ypubx", "ypubxu", "ypubxu", "ypub", "npub", "xsub", "xgraft", "wait", "wait", "xreconnect", "xopen", "xslow", "xresetin", "blapi", "bldirect", "nfan", "nfan", "nburst"}
	gen := func(label string, max int) []c16Op {
		var out []c16Op
		for i := 0; i < rapid.IntRange(0, max).Draw(rt, label); i++ {
			op := c16Op{Kind: rapid.SampledFrom(kinds).Draw(rt, "kind"), T: rapid.IntRange(0, 1).Draw(rt, "t")}
			if op.Kind == "wait" {
				op.Ms = rapid.SampledFrom([]int{1, 10, 100, 400, 1200}).Draw(rt, "ms")
			}
			out = append(out, op)
		}
		return out
	}
	c.Pre = gen("npre", 6)
	c.Post = gen("npost", 10)
	return c
}

func c16Run(t *testing.T, c c16Case) (res vfResult) {
	msg := vfBubble(t, func() { c16RunInBubble(t, c, &res) })
	if msg != "" {
		if strings.Contains(msg, "deadlock") {
			res.Inconclusive = "bubble did not drain: " + msg
		} else {
			res.violate("C16/panic", -1, "%s", msg)
		}
	}
	return
}

func c16RunInBubble(t *testing.T, c c16Case, res *vfResult) {
	lat := func(a, b int) int {
		o := a
		if o == c16N {
			o = b
		}
		if o >= 1 && o <= 3 {
			return c.Lat[o-1]
		}
		return 1
	}
	s, err := newVfSim(t, 4, lat)
	if err != nil {
		res.Inconclusive = err.Error()
		return
	}
	defer s.close()
	var bl Blacklist
	if c.Impl == "timecache" {
		tbl, _ := NewTimeCachedBlacklist(time.Hour)
		bl = tbl
		// the time cache's sweeper has no owner that stops it; the harness does, so that the bubble can drain
		defer tbl.(*TimeCachedBlacklist).tc.Done()
	} else {
		bl = NewMapBlacklist()
	}
	slow := func(ctx context.Context, p peer.ID, m *Message) bool {
		if strings.HasPrefix(string(m.Data), "slow") {
			select {
			case <-time.After(300 * time.Millisecond):
			case <-ctx.Done():
			}
		}
		return true
	}
	if c.Stream > 0 {
		s.nodes[c16N].psHost = &vfSlowStreamHost{Host: s.hosts[c16N], delay: time.Duration(c.Stream) * time.Millisecond}
		res.label("slow-stream-negotiation")
	}
	nopts := []Option{WithBlacklist(bl), WithDefaultValidator(slow)}
	switch c.Policy {
	case 1:
		nopts = append(nopts, WithMessageSignaturePolicy(LaxSign))
	case 2:
		nopts = append(nopts, WithMessageSignaturePolicy(LaxNoSign))
	}
	res.label(fmt.Sprintf("policy:%d", c.Policy))
	if err := s.start(c16N, c.Router, nopts...); err != nil {
		res.Inconclusive = err.Error()
		return
	}
	N := s.nodes[c16N]
	xid, yid := vfPeer(c16X), vfPeer(c16Y)
	xproto := vfProto(c.XProto)
	if c.Router != "gossipsub" {
		xproto = FloodSubID
	}
	X := s.skeleton(c16X, xproto)
	Y := s.skeleton(c16Y, FloodSubID)
	Z := s.skeleton(c16Z, FloodSubID)
	var subs []*Subscription
	for tp := 0; tp < 2; tp++ {
		sub, err := N.ps.Subscribe(vfTopic(tp))
		if err != nil {
			res.Inconclusive = err.Error()
			return
		}
		subs = append(subs, sub)
	}
	// Y and Z are there from the start
	for _, k := range []*vfSkel{Y, Z} {
		if err := s.connect(k.idx, c16N); err != nil {
			res.Inconclusive = err.Error()
			return
		}
		if err := k.openOut(c16N, FloodSubID); err != nil {
			res.Inconclusive = err.Error()
			return
		}
		for tp := 0; tp < 2; tp++ {
			k.send(c16N, &vfSubRPC(vfTopic(tp), true).RPC)
		}
	}

	blacklisted, hadQueue := false, false
	var t0 time.Duration
	var blacklistFn func(string)
	xConnected := false
	seq := uint64(0)
	nResets := 0
	tAPI, lastBurst := time.Duration(-1), time.Duration(-1)
	tagged := map[string]string{} // data -> description, for messages that must not get through
	control := map[string]bool{}  // data of Y's own messages sent after the moment
	xSendSubs := func() {
		for tp := 0; tp < 4; tp++ { // topics 2 and 3 are not joined by the node: publishing there makes X a fanout member
			X.send(c16N, &vfSubRPC(vfTopic(tp), true).RPC)
		}
	}
	xConnect := func() bool {
		if xConnected {
			return true
		}
		if err := s.connect(c16X, c16N); err != nil {
			return false
		}
		xConnected = true
		if err := X.openOut(c16N, xproto); err == nil {
			xSendSubs()
		}
		return true
	}
	xDisconnect := func() {
		if xConnected {
			s.disconnect(c16X, c16N)
			X.closeOut(c16N, true)
			xConnected = false
			s.wait(time.Duration(2*c.Lat[0]+50) * time.Millisecond)
		}
	}
	exec := func(phase string, i int, op c16Op) {
		mk := func(author *vfIdent, kind string, tp int) (*pb.Message, string) {
			seq++
			data := fmt.Sprintf("%s-%s-%d", kind, phase, seq)
			if kind == "xslow" {
				data = "slow-" + data
			}
			return vfSignedMsg(author, vfTopic(tp), seq, []byte(data)), data
		}
		switch op.Kind {
		case "xpub", "xslow":
			if X.hasOut(c16N) {
				m, data := mk(xid, op.Kind, op.T)
				if X.send(c16N, &pb.RPC{Publish: []*pb.Message{m}}) == nil && blacklisted {
					tagged[data] = "sent by the blacklisted peer after the moment"
				}
			}
		case "ypubx":
			m, data := mk(xid, "ypubx", op.T)
			if Y.send(c16N, &pb.RPC{Publish: []*pb.Message{m}}) == nil && blacklisted {
				tagged[data] = "authored by the blacklisted peer, forwarded by an honest peer after the moment"
			}
		case "ypubxu":
			// an unsigned message naming X as its author, forwarded by the honest peer (accepted only under the lax policies)
			m, data := mk(xid, "ypubxu", op.T)
			m.Signature, m.Key = nil, nil
			if Y.send(c16N, &pb.RPC{Publish: []*pb.Message{m}}) == nil && blacklisted {
				tagged[data] = "unsigned, naming the blacklisted peer as author, forwarded by an honest peer after the moment"
			}
		case "ypub":
			m, data := mk(yid, "ypub", op.T)
			if Y.send(c16N, &pb.RPC{Publish: []*pb.Message{m}}) == nil && blacklisted {
				control[data] = true
			}
		case "npub":
			N.ps.Publish(vfTopic(op.T), []byte(fmt.Sprintf("npub-%s-%d", phase, i)))
		case "nfan":
			// publish to the two topics the node has not joined: fanout sets with X in them (gossipsub)
			for tp := 2; tp < 4; tp++ {
				N.ps.Publish(vfTopic(tp), []byte(fmt.Sprintf("nfan-%s-%d-%d", phase, i, tp)))
			}
		case "nburst":
			// a backlog in X's outbound queue: eight 30 KB messages back to back (20 Mbit/s link: about 100 ms of writing)
			for k := 0; k < 8; k++ {
				N.ps.Publish(vfTopic(op.T), append([]byte(fmt.Sprintf("nburst-%s-%d-%d-", phase, i, k)), make([]byte, 30000)...))
			}
			if tAPI < 0 {
				lastBurst = s.now()
			}
			res.label("burst-before-or-after")
		case "xsub":
			if X.hasOut(c16N) {
				xSendSubs()
			}
		case "xgraft":
			if X.hasOut(c16N) && c.Router == "gossipsub" && xproto != FloodSubID {
				X.send(c16N, &vfGraftRPC(vfTopic(op.T)).RPC)
			}
		case "xreconnect":
			xDisconnect()
			xConnect()
		case "xopen":
			if xConnected {
				X.closeOut(c16N, false)
				if X.openOut(c16N, xproto) == nil {
					xSendSubs()
				}
			}
		case "wait":
			s.wait(time.Duration(op.Ms) * time.Millisecond)
		case "xresetin":
			// X resets the stream(s) the node opened to it; the node respawns its writer after a back-off
			if nResets < 3 && X.resetIn(c16N) > 0 {
				nResets++
				res.label("node-stream-reset")
			}
		case "blapi", "bldirect":
			if blacklisted && blacklistFn != nil {
				blacklistFn(strings.TrimPrefix(op.Kind, "bl"))
			}
		}
	}

	// ---- before the moment
	if c.Pos != "before-connect" && c.Pos != "connecting" {
		if !xConnect() {
			res.Inconclusive = "X could not connect"
			return
		}
	}
	for i, op := range c.Pre {
		exec("pre", i, op)
	}
	var connectDone chan struct{}
	switch c.Pos {
	case "settled":
		if c.Router == "gossipsub" && xproto != FloodSubID && X.hasOut(c16N) {
			X.send(c16N, &vfGraftRPC(vfTopic(0)).RPC)
		}
		s.wait(2500 * time.Millisecond)
	case "validating":
		exec("pre", -1, c16Op{Kind: "xslow"})
		s.wait(time.Duration(c.Lat[0]+50) * time.Millisecond)
	case "disconnected":
		s.wait(500 * time.Millisecond)
		xDisconnect()
	case "respawning":
		// the dead-peer back-off grows with every reset: 0, 100 ms, 200+ ms; the moment falls into the last one
		s.wait(time.Duration(4*c.Lat[0]+c.Stream+100) * time.Millisecond)
		for r := 0; r < c.Resets; r++ {
			if X.resetIn(c16N) > 0 {
				nResets++
			}
			if r < c.Resets-1 {
				s.wait(time.Duration(4*c.Lat[0]+c.Stream+400) * time.Millisecond)
			}
		}
		time.Sleep(time.Duration(c.DelayMs%(300+c.Stream)) * time.Millisecond)
	case "connecting":
		connectDone = make(chan struct{})
		go func() {
			defer close(connectDone)
			if s.connect(c16X, c16N) == nil {
				if X.openOut(c16N, xproto) == nil {
					xSendSubs()
				}
			}
		}()
		time.Sleep(time.Duration(c.DelayMs) * time.Millisecond)
	}

	// ---- the moment (and any later blacklisting call)
	doBlacklist := func(route string) {
		var qBefore *rpcQueue
		inMesh, inTopics := false, false
		s.eval(c16N, func() {
			qBefore = N.ps.peers[xid.ID]
			if N.gs != nil {
				for _, m := range N.gs.mesh {
					if _, ok := m[xid.ID]; ok {
						inMesh = true
					}
				}
			}
			for _, tm := range N.ps.topics {
				if _, ok := tm[xid.ID]; ok {
					inTopics = true
				}
			}
		})
		if route == "api" {
			N.ps.BlacklistPeer(xid.ID)
		} else {
			s.eval(c16N, func() { bl.Add(xid.ID) })
		}
		synctest.Wait()
		if !blacklisted {
			blacklisted = true
			t0 = s.now()
			if qBefore != nil {
				res.label("had-queue-at-the-moment")
				hadQueue = true
			}
			if inMesh {
				res.label("in-mesh-at-the-moment")
			}
			if inTopics {
				res.label("known-subscriber-at-the-moment")
			}
		} else {
			res.label("blacklisted-again:" + route)
		}
		if route != "api" {
			return
		}
		if tAPI < 0 {
			tAPI = s.now()
		}
		s.eval(c16N, func() {
			if _, ok := N.ps.peers[xid.ID]; ok {
				res.violate("C16/still-has-queue", -1, "after BlacklistPeer the node still has an outbound queue for the peer")
			}
			if qBefore != nil {
				qBefore.queueMu.Lock()
				closed := qBefore.closed
				qBefore.queueMu.Unlock()
				if !closed {
					res.violate("C16/queue-not-closed", -1, "BlacklistPeer did not close the peer's outbound queue")
				}
				// closed means closed: whatever is still queued must not be handed to the writer any more
				cctx, ccancel := context.WithCancel(context.Background())
				ccancel()
				if rpc, err := qBefore.Pop(cctx); err == nil && rpc != nil {
					res.violate("C16/closed-queue-still-pops", -1, "after BlacklistPeer the peer's closed outbound queue still hands out queued RPCs to its writer (%s)", c16Brief(&rpc.RPC))
				}
			}
			if N.gs != nil {
				for tp, m := range N.gs.mesh {
					if _, ok := m[xid.ID]; ok {
						res.violate("C16/still-in-mesh", -1, "after BlacklistPeer the peer is still in the mesh of %s", tp)
					}
				}
				for tp, m := range N.gs.fanout {
					if _, ok := m[xid.ID]; ok {
						res.violate("C16/still-in-fanout", -1, "after BlacklistPeer the peer is still in the fanout of %s", tp)
					}
				}
			}
		})
		for tp := 0; tp < 2; tp++ {
			for _, p := range N.ps.ListPeers(vfTopic(tp)) {
				if p == xid.ID {
					res.violate("C16/still-listed", -1, "after BlacklistPeer the peer is still in ListPeers(%s)", vfTopic(tp))
				}
			}
		}
	}
	blacklistFn = doBlacklist
	if c.Burst {
		exec("pre", -2, c16Op{Kind: "nfan"})
		exec("pre", -3, c16Op{Kind: "nburst"})
		time.Sleep(time.Millisecond)
	}
	doBlacklist(c.Route)
	if connectDone != nil {
		<-connectDone
		xConnected = s.connected(c16X, c16N)
	}

	// ---- after the moment
	for i, op := range c.Post {
		exec("post", i, op)
	}
	// always: one message of each kind at the end, and a late reconnect in half of the cases (by position parity)
	exec("post", 100, c16Op{Kind: "ypubx"})
	exec("post", 104, c16Op{Kind: "ypubxu"})
	exec("post", 101, c16Op{Kind: "xpub"})
	exec("post", 102, c16Op{Kind: "ypub"})
	exec("post", 103, c16Op{Kind: "npub"})
	s.wait(3 * time.Second)

	// ---- oracle
	delivered := map[string]*Message{}
	for _, sub := range subs {
		for {
			ctx, cancel := context.WithTimeout(context.Background(), 10*time.Millisecond)
			m, err := sub.Next(ctx)
			cancel()
			if err != nil {
				break
			}
			delivered[string(m.Data)] = m
		}
	}
	for data, why := range tagged {
		if m, ok := delivered[data]; ok {
			res.violate("C16/delivered:"+c16Kind(data), -1, "message %q (%s) was delivered to a subscriber (received from node %d)", data, why, s.idx(m.ReceivedFrom))
		}
	}
	for _, r := range Z.received() {
		for _, m := range r.RPC.GetPublish() {
			if why, ok := tagged[string(m.Data)]; ok {
				res.violate("C16/forwarded:"+c16Kind(string(m.Data)), -1, "message %q (%s) was forwarded to a third peer", m.Data, why)
			}
		}
	}
	allowance := time.Duration(c.Lat[0]+25) * time.Millisecond
	// a burst shortly before BlacklistPeer leaves up to 240 KB in the transport's send buffers (about 100 ms at 20 Mbit/s):
	// everything written to the stream before the moment queues behind it
	backlog, backlog0 := time.Duration(0), time.Duration(0)
	if lastBurst >= 0 && t0-lastBurst < 400*time.Millisecond {
		backlog0 = 300 * time.Millisecond // the same for streams opened just before the moment
	}
	if tAPI >= 0 && lastBurst >= 0 && tAPI-lastBurst < 400*time.Millisecond {
		backlog = 300 * time.Millisecond
	}
	for _, r := range X.received() {
		// streams are negotiated lazily: NewStream returns at the node before the peer has accepted the stream, so a
		// stream accepted up to one latency after the moment may have completed before it
		if at := X.streamAt(r.Stream); at > t0+allowance+backlog0 {
			res.violate("C16/late-stream-not-refused", -1, "an outbound stream to the blacklisted peer that completed after the moment (accepted by the peer %v after it) was used: %s", at-t0, c16Brief(r.RPC))
		} else if tAPI >= 0 && r.At > tAPI+allowance+backlog && !c16OnlyBurst(r.RPC) {
			// (burst messages are exempt: what the writer had handed to the transport before the moment takes its
			// transmission time to arrive; that the closed queue hands out nothing more is checked at the queue itself)
			res.violate("C16/sent-after-blacklisting", -1, "the blacklisted peer received an RPC %v after BlacklistPeer took effect (one-way latency %d ms): %s", r.At-tAPI, c.Lat[0], c16Brief(r.RPC))
		}
	}
	s.eval(c16N, func() {
		if _, ok := N.ps.peers[xid.ID]; ok && (tAPI >= 0 || !hadQueue) {
			res.violate("C16/queue-at-end", -1, "at the end the node has an outbound queue for the blacklisted peer")
		}
	})
	nControl := 0
	for data := range control {
		if _, ok := delivered[data]; ok {
			nControl++
		}
	}
	if nControl == len(control) && len(control) > 0 {
		res.label("control-messages-delivered")
		if c.Pos != "settled" {
			res.NT = true
		}
	} else {
		res.label("control-message-lost")
	}
	res.label("pos:" + c.Pos)
	res.label("route:" + c.Route)
	res.label("impl:" + c.Impl)
	res.label("router:" + c.Router)
	if len(tagged) > 0 {
		res.label("tagged-messages")
	}
}

// c16OnlyBurst: the RPC carries nothing but messages of a burst.
func c16OnlyBurst(r *pb.RPC) bool {
	if len(r.GetPublish()) == 0 || len(r.GetSubscriptions()) > 0 || r.GetControl() != nil {
		return false
	}
	for _, m := range r.GetPublish() {
		if !strings.HasPrefix(string(m.Data), "nburst-") {
			return false
		}
	}
	return true
}

func c16Kind(data string) string {
	data = strings.TrimPrefix(data, "slow-")
	if i := strings.IndexByte(data, '-'); i > 0 {
		return data[:i]
	}
	return data
}

func c16Brief(r *pb.RPC) string {
	var parts []string
	if n := len(r.GetSubscriptions()); n > 0 {
		parts = append(parts, fmt.Sprintf("%d subscription options", n))
	}
	for _, m := range r.GetPublish() {
		d := m.Data
		if len(d) > 40 {
			d = d[:40]
		}
		parts = append(parts, fmt.Sprintf("message %q (%d bytes)", d, len(m.Data)))
	}
	if c := r.GetControl(); c != nil {
		parts = append(parts, fmt.Sprintf("control (ihave %d, iwant %d, graft %d, prune %d, idontwant %d)", len(c.Ihave), len(c.Iwant), len(c.Graft), len(c.Prune), len(c.Idontwant)))
	}
	if len(parts) == 0 {
		return "empty RPC"
	}
	return strings.Join(parts, ", ")
}

var _ protocol.ID

func TestVfC16Blacklist(t *testing.T) {
	vfCheck(t, "C16", c16Gen, c16Run)
}
