package pubsub

// C14 (NET part): shutdown with comm.go's stream goroutines, the notifee, identify and real traffic running. 2-4 real
// nodes publish to each other while connections come and go; node 0's context is cancelled at a generated virtual
// instant (mid-traffic); the API of node 0 is called again; then the hosts are closed. Every call must have returned,
// nothing may panic, and when the hosts are closed no goroutine of the library may remain.

import (
	"context"
	"fmt"
	"strings"
	"sync/atomic"
	"testing"
	"testing/synctest"
	"time"

	"github.com/libp2p/go-libp2p/core/peer"
	"pgregory.net/rapid"
)

type c14nCase struct {
	N        int       `json:"n"`
	Routers  []string  `json:"routers"`
	Lat      int       `json:"lat"`
	CancelMs int       `json:"cancel_ms"`
	PubEvery []int     `json:"pub_every_ms"` // per node
	Churn    []c05Op   `json:"churn"`        // connect / disconnect / wait around the cancellation
	Post     []c14Call `json:"post"`
	Slow     bool      `json:"slow_validator"`
	Flood    int       `json:"flood"` // RPCs a skeleton peer keeps writing to node 0 around and after the cancellation
}

func c14nGen(rt *rapid.T) c14nCase {
	c := c14nCase{N: rapid.IntRange(2, 4).Draw(rt, "n"), Lat: rapid.SampledFrom([]int{1, 5, 20}).Draw(rt, "lat"),
		CancelMs: rapid.SampledFrom([]int{0, 1, 7, 50, 333, 1001, 2500}).Draw(rt, "cancel"), Slow: rapid.Bool().Draw(rt, "slow"),
		Flood: rapid.SampledFrom([]int{0, 10, 100, 400}).Draw(rt, "flood")}
	for i := 0; i < c.N; i++ {
		c.Routers = append(c.Routers, rapid.SampledFrom([]string{"gossipsub", "gossipsub", "floodsub", "randomsub"}).Draw(rt, "router"))
		c.PubEvery = append(c.PubEvery, rapid.SampledFrom([]int{0, 13, 40, 150}).Draw(rt, "every"))
	}
	for i := 0; i < rapid.IntRange(0, 6).Draw(rt, "nchurn"); i++ {
		op := c05Op{Kind: rapid.SampledFrom([]string{"connect", "disconnect", "wait", "reset"}).Draw(rt, "kind"), A: 0, B: rapid.IntRange(1, c.N-1).Draw(rt, "b")}
		if op.Kind == "wait" {
			op.Ms = rapid.SampledFrom([]int{1, 20, 200, 900}).Draw(rt, "ms")
		}
		c.Churn = append(c.Churn, op)
	}
	for _, api := range c14APIs {
		if rapid.IntRange(0, 3).Draw(rt, "post") == 0 {
			c.Post = append(c.Post, c14Call{API: api, T: rapid.IntRange(0, 1).Draw(rt, "pt"), I: rapid.IntRange(0, 5).Draw(rt, "pi"), N: rapid.SampledFrom([]int{1, 2, 40}).Draw(rt, "pn")})
		}
	}
	return c
}

func c14nRun(t *testing.T, c c14nCase) (res vfResult) {
	msg := vfBubble(t, func() { c14nRunInBubble(t, c, &res) })
	if msg != "" {
		switch {
		case strings.Contains(msg, "deadlock"):
			if k := c14LeakKey(msg); k != "unknown" {
				res.violate("C14/goroutine-leak:"+k, -1, "goroutines of the library are still blocked after the context was cancelled and the hosts were closed:\n%s", msg)
			} else {
				res.Inconclusive = "bubble did not drain: " + msg
			}
		default:
			res.violate("C14/panic", -1, "%s", msg)
		}
	}
	return
}

func c14nRunInBubble(t *testing.T, c c14nCase, res *vfResult) {
	s, err := newVfSim(t, c.N+1, func(a, b int) int { return c.Lat })
	if err != nil {
		res.Inconclusive = err.Error()
		return
	}
	defer s.close()
	slow := func(ctx context.Context, p peer.ID, m *Message) bool {
		if c.Slow {
			select {
			case <-time.After(120 * time.Millisecond):
			case <-ctx.Done():
				return false
			}
		}
		return true
	}
	slow2 := func(ctx context.Context, p peer.ID, m *Message) bool {
		if c.Slow {
			select {
			case <-time.After(70 * time.Millisecond):
			case <-ctx.Done():
				return false
			}
		}
		return true
	}
	for i := 0; i < c.N; i++ {
		if err := s.start(i, c.Routers[i], WithDefaultValidator(slow), WithDefaultValidator(slow2)); err != nil {
			res.Inconclusive = err.Error()
			return
		}
	}
	var subs []*Subscription
	topics := make([]*Topic, c.N)
	for i := 0; i < c.N; i++ {
		th, err := s.nodes[i].ps.Join(vfTopic(0))
		if err != nil {
			res.Inconclusive = err.Error()
			return
		}
		topics[i] = th
		if sub, err := th.Subscribe(); err == nil {
			subs = append(subs, sub)
		}
	}
	edge := map[[2]int]bool{}
	for i := 1; i < c.N; i++ {
		if err := s.connect(i, 0); err != nil {
			res.Inconclusive = err.Error()
			return
		}
		edge[[2]int{0, i}] = true
	}
	s.wait(1500 * time.Millisecond)
	// traffic
	stop := make(chan struct{})
	var published int64
	for i := 0; i < c.N; i++ {
		if c.PubEvery[i] == 0 {
			continue
		}
		go func(i int) {
			tk := time.NewTicker(time.Duration(c.PubEvery[i]) * time.Millisecond)
			defer tk.Stop()
			for k := 0; ; k++ {
				select {
				case <-stop:
					return
				case <-tk.C:
					ctx, cancel := context.WithTimeout(context.Background(), 200*time.Millisecond)
					topics[i].Publish(ctx, []byte(fmt.Sprintf("n%d-%d", i, k)))
					cancel()
					atomic.AddInt64(&published, 1)
				}
			}
		}(i)
	}
	// readers keep the subscriptions drained
	for _, sub := range subs {
		go func(sub *Subscription) {
			for {
				ctx, cancel := context.WithTimeout(context.Background(), 300*time.Millisecond)
				_, err := sub.Next(ctx)
				cancel()
				select {
				case <-stop:
					return
				default:
				}
				if err != nil && err != context.DeadlineExceeded {
					return
				}
			}
		}(sub)
	}
	// a peer that does not care what node 0 announces and keeps writing: whoever reads its stream must not get stuck
	// handing RPCs to an event loop that is gone
	if c.Flood > 0 {
		fl := s.skeleton(c.N, FloodSubID)
		if s.connect(c.N, 0) == nil && fl.openOut(0, FloodSubID) == nil {
			res.label("flooding-peer")
			go func() {
				d := time.Duration(c.CancelMs)*time.Millisecond - 20*time.Millisecond
				if d > 0 {
					time.Sleep(d)
				}
				for k := 0; k < c.Flood; k++ {
					fl.send(0, &vfSubRPC(fmt.Sprintf("flood-%d", k%7), k%2 == 0).RPC)
					time.Sleep(time.Millisecond)
				}
			}()
		}
	}
	// the cancellation lands while the churn script runs
	go func() {
		time.Sleep(time.Duration(c.CancelMs) * time.Millisecond)
		s.nodes[0].cancel()
	}()
	for _, op := range c.Churn {
		switch op.Kind {
		case "connect":
			if !edge[[2]int{0, op.B}] {
				if s.connect(op.B, 0) == nil {
					edge[[2]int{0, op.B}] = true
				}
			}
		case "disconnect":
			if edge[[2]int{0, op.B}] {
				s.disconnect(0, op.B)
				delete(edge, [2]int{0, op.B})
			}
		case "reset":
			c05ResetInbound(s, op.B, 0)
		case "wait":
			time.Sleep(time.Duration(op.Ms) * time.Millisecond)
		}
	}
	time.Sleep(3 * time.Second)
	s.nodes[0].cancel()
	time.Sleep(2 * time.Second)
	if atomic.LoadInt64(&published) > 0 {
		res.NT = true
		res.label("cancelled-under-traffic")
	}
	// after shutdown: the API of node 0 again
	w := &c14World{n: &vfNode{ps: s.nodes[0].ps}, topics: map[int]*Topic{}, guards: map[int]*c14RW{}}
	type pstate struct {
		call c14Call
		k    atomic.Int32
		done atomic.Bool
	}
	var posts []*pstate
	for _, call := range c.Post {
		ps := &pstate{call: call}
		posts = append(posts, ps)
		go func() {
			for i := 0; i < ps.call.N; i++ {
				ps.k.Store(int32(i + 1))
				one := ps.call
				one.N = 1
				w.exec(one)
			}
			ps.done.Store(true)
		}()
	}
	time.Sleep(60 * time.Second)
	synctest.Wait()
	for _, ps := range posts {
		if !ps.done.Load() {
			res.violate("C14/call-blocked-after-shutdown:"+ps.call.API, 0, "%s: call %d of %d made after the context was cancelled has not returned 60 s later", ps.call.API, ps.k.Load(), ps.call.N)
		}
	}
	w.mu.Lock()
	for _, p := range w.panics {
		res.violate("C14/panic:"+strings.SplitN(p, ":", 2)[0], 0, "API call panicked: %s", p)
	}
	for _, h := range w.held {
		res.violate("C14/lock-left-held:"+c14LockKey(h), -1, "%s was found locked by a call that had already returned", h)
	}
	w.mu.Unlock()
	close(stop)
	time.Sleep(time.Second)
	for i := range c.Routers {
		res.label("router:" + c.Routers[i])
	}
}

func TestVfC14Net(t *testing.T) {
	vfCheck(t, "C14", c14nGen, c14nRun)
}
