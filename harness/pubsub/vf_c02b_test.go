package pubsub

// C02 (b) — at most once per message ID inside the seen window, through the real pipeline (DESIGN §5 C02b).

import (
	"context"
	"crypto/sha256"
	"fmt"
	"sync"
	"testing"
	"time"

	pb "github.com/libp2p/go-libp2p-pubsub/pb"
	"github.com/libp2p/go-libp2p-pubsub/timecache"
	"github.com/libp2p/go-libp2p/core/peer"
	"pgregory.net/rapid"
)

type c02Copy struct {
	P     int `json:"p"`      // sending peer; 0 = the node publishes the same content itself
	OffMs int `json:"off_ms"` // offset inside the event
}

type c02Event struct {
	M      int       `json:"m"` // message content number
	Copies []c02Copy `json:"copies"`
	GapS   int       `json:"gap_s"` // whole seconds of quiet after the event
	OneRPC bool      `json:"one_rpc,omitempty"` // the copies at offset 0 travel in a single RPC of the first sender
}

type c02bCase struct {
	Router   string     `json:"router"`
	TTLs     int        `json:"ttl_s"`
	Last     bool       `json:"last_seen"`
	IDFn     int        `json:"idfn"` // 0 default (author+seqno), 1 global content hash, 2 per-topic content hash
	Vals     []int      `json:"validator_delays_ms"` // default validators (async), all accepting
	TopicVal int        `json:"topic_validator_delay_ms"` // -1 none
	Workers  int        `json:"workers"`
	NoSign   bool       `json:"nosign,omitempty"` // strict no-signing policy, unsigned messages (no validation needed when no validator is registered)
	Events   []c02Event `json:"events"`
}

func c02bGen(rt *rapid.T) c02bCase {
	c := c02bCase{Router: rapid.SampledFrom([]string{"floodsub", "gossipsub"}).Draw(rt, "router"), TTLs: rapid.SampledFrom([]int{2, 30, 120}).Draw(rt, "ttl"),
		Last: rapid.Bool().Draw(rt, "last"), IDFn: rapid.IntRange(0, 2).Draw(rt, "idfn"), TopicVal: rapid.SampledFrom([]int{-1, -1, 0, 10, 50}).Draw(rt, "tv"), Workers: rapid.IntRange(1, 4).Draw(rt, "workers")}
	for i := 0; i < rapid.IntRange(0, 2).Draw(rt, "nvals"); i++ {
		c.Vals = append(c.Vals, rapid.SampledFrom([]int{0, 5, 30}).Draw(rt, "vd"))
	}
	c.NoSign = rapid.IntRange(0, 3).Draw(rt, "nosign") == 0
	n := rapid.IntRange(2, 14).Draw(rt, "nevents")
	for i := 0; i < n; i++ {
		e := c02Event{M: rapid.IntRange(0, 2).Draw(rt, "m"), OneRPC: rapid.IntRange(0, 2).Draw(rt, "onerpc") == 0}
		for k := 0; k < rapid.IntRange(1, 5).Draw(rt, "ncopies"); k++ {
			p := rapid.IntRange(0, 4).Draw(rt, "p")
			if c.IDFn == 0 && p == 0 {
				p = 1 // a local publish cannot collide with a remote ID under the default ID function
			}
			e.Copies = append(e.Copies, c02Copy{P: p, OffMs: rapid.SampledFrom([]int{0, 0, 0, 1, 5, 20, 60}).Draw(rt, "off")})
		}
		e.GapS = rapid.OneOf(rapid.IntRange(0, 3), rapid.SampledFrom([]int{c.TTLs - 1, c.TTLs, c.TTLs + 1, c.TTLs + 59, c.TTLs + 60, c.TTLs + 61, 125, 200})).Draw(rt, "gap")
		if e.GapS < 0 {
			e.GapS = 0
		}
		c.Events = append(c.Events, e)
	}
	return c
}

func c02Hash(m *pb.Message) string {
	h := sha256.Sum256(m.Data)
	return string(h[:8])
}

func c02bRun(t *testing.T, c c02bCase) (res vfResult) {
	msg := vfBubble(t, func() { c02bRunInBubble(t, c, &res) })
	if msg != "" {
		res.violate("C02/panic", -1, "%s", msg)
	}
	return
}

func c02bRunInBubble(t *testing.T, c c02bCase, res *vfResult) {
	topic := vfTopic(0)
	ttl := time.Duration(c.TTLs) * time.Second
	var mu sync.Mutex
	invoked := map[string][]int{} // data -> invocations per validator
	nvals := len(c.Vals)
	if c.TopicVal >= 0 {
		nvals++
	}
	mk := func(idx, delayMs int) ValidatorEx {
		return func(ctx context.Context, p peer.ID, m *Message) ValidationResult {
			mu.Lock()
			if invoked[string(m.Data)] == nil {
				invoked[string(m.Data)] = make([]int, nvals)
			}
			invoked[string(m.Data)][idx]++
			mu.Unlock()
			if delayMs > 0 {
				time.Sleep(time.Duration(delayMs) * time.Millisecond)
			}
			return ValidationAccept
		}
	}
	strat := timecache.Strategy_FirstSeen
	if c.Last {
		strat = timecache.Strategy_LastSeen
	}
	opts := []Option{WithSeenMessagesTTL(ttl), WithSeenMessagesStrategy(strat)}
	if c.NoSign {
		opts = append(opts, WithMessageSignaturePolicy(StrictNoSign))
	}
	if c.IDFn == 1 {
		opts = append(opts, WithMessageIdFn(c02Hash))
	}
	for i, d := range c.Vals {
		opts = append(opts, WithDefaultValidator(mk(i, d)))
	}
	n, err := newVfNode(t, vfNodeCfg{Router: c.Router, ManualHeartbeat: true, Workers: c.Workers, Opts: opts})
	if err != nil {
		res.Inconclusive = err.Error()
		return
	}
	defer n.close()
	var topts []TopicOpt
	if c.IDFn == 2 {
		topts = append(topts, WithTopicMessageIdFn(c02Hash))
	}
	th, err := n.ps.Join(topic, topts...)
	if err != nil {
		res.Inconclusive = err.Error()
		return
	}
	if c.TopicVal >= 0 {
		if err := n.ps.RegisterTopicValidator(topic, mk(len(c.Vals), c.TopicVal)); err != nil {
			res.Inconclusive = err.Error()
			return
		}
	}
	subA, _ := th.Subscribe(WithBufferSize(512))
	subB, _ := th.Subscribe(WithBufferSize(512))
	for p := 1; p <= 4; p++ {
		n.addPeer(p, FloodSubID, 0, nil)
		n.recv(p, vfSubRPC(topic, true))
	}
	n.drain()
	// content numbers map to fixed messages under the default ID function (same author and seqno = same ID);
	// under the content-hash functions every copy is re-signed with a fresh seqno (same data = same ID)
	fixed := map[int]*pb.Message{}
	seq := uint64(500)
	sign := func(a *vfIdent, tn string, sq uint64, data []byte) *pb.Message {
		m := vfSignedMsg(a, tn, sq, data)
		if c.NoSign {
			m.Signature, m.Key = nil, nil
		}
		return m
	}
	build := func(m int) *pb.Message {
		data := []byte(fmt.Sprintf("content-%d", m))
		if c.IDFn == 0 {
			if x, ok := fixed[m]; ok {
				return x
			}
			seq++
			fixed[m] = sign(vfPeer(32), topic, seq, data)
			return fixed[m]
		}
		seq++
		return sign(vfPeer(32), topic, seq, data)
	}
	type window struct{ expiry time.Time }
	model := map[int]*window{}
	time.Sleep(500 * time.Millisecond) // stay half a second off the sweep instants
	afterExpiry, collide, overlap := false, false, false

	for ei, ev := range c.Events {
		start := time.Now()
		data := fmt.Sprintf("content-%d", ev.M)
		w := model[ev.M]
		zone := "new"
		if w != nil {
			switch {
			case start.Before(w.expiry):
				zone = "dup"
			case start.After(w.expiry.Add(c02SweepInterval)):
				zone = "new"
				afterExpiry = true
			default:
				zone = "may"
				afterExpiry = true
			}
		}
		mu.Lock()
		invBefore := append([]int(nil), invoked[data]...)
		mu.Unlock()
		cnt := func(s *Subscription) int {
			k := 0
			for {
				select {
				case m := <-s.ch:
					if string(m.Data) == data {
						k++
					}
				default:
					return k
				}
			}
		}
		cnt(subA)
		cnt(subB)
		// play the copies
		copies := append([]c02Copy(nil), ev.Copies...)
		for i := 1; i < len(copies); i++ {
			for j := i; j > 0 && copies[j].OffMs < copies[j-1].OffMs; j-- {
				copies[j], copies[j-1] = copies[j-1], copies[j]
			}
		}
		at := 0
		var pubWG sync.WaitGroup
		if ev.OneRPC {
			var bundle []*pb.Message
			var rest []c02Copy
			first := 0
			for _, cp := range copies {
				if cp.OffMs == 0 && cp.P != 0 {
					if first == 0 {
						first = cp.P
					}
					bundle = append(bundle, build(ev.M))
				} else {
					rest = append(rest, cp)
				}
			}
			if len(bundle) > 0 {
				n.recv(first, vfMsgRPC(bundle...))
			}
			copies = rest
		}
		for _, cp := range copies {
			if cp.OffMs > at {
				time.Sleep(time.Duration(cp.OffMs-at) * time.Millisecond)
				at = cp.OffMs
			}
			if cp.P == 0 {
				collide = true
				pubWG.Add(1)
				go func() {
					defer pubWG.Done()
					_ = th.Publish(n.ctx, []byte(data))
				}()
			} else {
				n.recv(cp.P, vfMsgRPC(build(ev.M)))
			}
		}
		if len(copies) >= 2 {
			overlap = true
		}
		// every event takes exactly one second, then the generated quiet time
		time.Sleep(400 * time.Millisecond)
		n.settle()
		pubWG.Wait()
		n.drain()
		dA, dB := cnt(subA), cnt(subB)
		mu.Lock()
		inv := append([]int(nil), invoked[data]...)
		mu.Unlock()
		if inv == nil {
			inv = make([]int, nvals)
		}
		if invBefore == nil {
			invBefore = make([]int, nvals)
		}
		maxInv, minInv := 0, 1<<30
		for i := range inv {
			d := inv[i] - invBefore[i]
			if d > maxInv {
				maxInv = d
			}
			if d < minInv {
				minInv = d
			}
		}
		if nvals == 0 {
			minInv = 0
		}
		desc := fmt.Sprintf("event %d: %d copies of content %d (ttl %v, %s, id function %d, zone %s): delivered %d/%d, validators invoked %d..%d times", ei, len(ev.Copies), ev.M, ttl, stratName(c.Last), c.IDFn, zone, dA, dB, minInv, maxInv)
		if dA > 1 || dB > 1 {
			res.violate("C02/delivered-twice", ei, "%s", desc)
		}
		if maxInv > 1 {
			res.violate("C02/validated-twice", ei, "%s", desc)
		}
		if dA != dB {
			res.violate("C02/subscriptions-disagree", ei, "%s", desc)
		}
		switch zone {
		case "dup":
			if dA > 0 || maxInv > 0 {
				res.violate("C02/forgotten-early", ei, "%s: the id was remembered until %v from now", desc, w.expiry.Sub(start))
			}
			if c.Last {
				w.expiry = start.Add(time.Duration(at) * time.Millisecond).Add(ttl) // refreshed by the latest sighting
			}
		case "new":
			if dA != 1 || (nvals > 0 && minInv != 1) {
				res.violate("C02/not-treated-as-new", ei, "%s: a first or long-forgotten id must be validated and delivered once", desc)
			}
			model[ev.M] = &window{expiry: start.Add(ttl)}
			if c.Last {
				model[ev.M].expiry = start.Add(time.Duration(at) * time.Millisecond).Add(ttl)
			}
		case "may":
			if dA == 1 {
				model[ev.M] = &window{expiry: start.Add(ttl)}
				if c.Last {
					model[ev.M].expiry = start.Add(time.Duration(at) * time.Millisecond).Add(ttl)
				}
			} else if c.Last {
				w.expiry = start.Add(time.Duration(at) * time.Millisecond).Add(ttl)
			}
		}
		if len(res.Viols) > 0 {
			return
		}
		time.Sleep(time.Until(start.Add(time.Second)))
		time.Sleep(time.Duration(ev.GapS) * time.Second)
	}
	res.NT = (overlap && (len(c.Vals) > 0 || c.TopicVal >= 0)) || collide
	if afterExpiry {
		res.label("event-after-expiry")
	}
	if collide {
		res.label("local-publish-collides")
	}
	if overlap {
		res.label("copies-overlap-validation")
	}
	res.label(stratName(c.Last))
}

func TestVfC02bPipeline(t *testing.T) {
	vfCheck(t, "C02", c02bGen, c02bRun)
}
