package pubsub

// C10 — peer scores equal the GossipSub v1.1 scoring function of the peer's history (DESIGN §5 C10).
// L0: a peerScore driven through its tracer interface on the stub host, compared after every event
// with an independent reference model written from the v1.1 specification.

import (
	"fmt"
	"log/slog"
	"math"
	"net"
	"sort"
	"strings"
	"testing"
	"testing/synctest"
	"time"

	pb "github.com/libp2p/go-libp2p-pubsub/pb"
	"github.com/libp2p/go-libp2p/core/peer"
	"pgregory.net/rapid"
)

// ---------------------------------------------------------------------------------------------------
// case

type c10Topic struct {
	W                                  float64 `json:"w"`
	P1W, P1Cap                         float64
	P1QuantumMs                        int
	P2W, P2Decay, P2Cap                float64
	P3W, P3Decay, P3Cap, P3Threshold   float64
	P3WindowMs, P3ActivationMs         int
	P3bW, P3bDecay                     float64
	P4W, P4Decay                       float64
	SkipAtomic                         bool
}

type c10Params struct {
	SkipAtomic      bool
	Topics          []c10Topic
	TopicScoreCap   float64
	AppW            float64
	IPW             float64
	IPThreshold     int
	Whitelist       []string
	BehW, BehT, BehD float64
	DecayToZero     float64
	RetainMs        int
	SeenTTLMs       int
}

type c10Event struct {
	Op     string   `json:"op"`
	P      int      `json:"p,omitempty"`
	T      int      `json:"t,omitempty"`
	M      int      `json:"m,omitempty"`
	N      int      `json:"n,omitempty"`
	Ms     int      `json:"ms,omitempty"`
	IPs    []string `json:"ips,omitempty"`
	V      float64  `json:"v,omitempty"`
	Reason string   `json:"reason,omitempty"`
}

type c10Case struct {
	Params c10Params  `json:"params"`
	Peers  int        `json:"peers"`
	Events []c10Event `json:"events"`
}

var c10IPPool = []string{"1.1.1.1", "1.1.1.2", "2.2.2.2", "10.0.0.5", "127.0.0.1", "2001:db8:1::1", "2001:db8:1::2", "2001:db8:2::1"}
var c10PreReasons = []string{RejectMissingSignature, RejectInvalidSignature, RejectUnexpectedSignature, RejectUnexpectedAuthInfo,
	RejectSelfOrigin, RejectBlacklstedPeer, RejectBlacklistedSource, RejectValidationQueueFull}
var c10PipeReasons = []string{RejectValidationFailed, RejectValidationIgnored, RejectValidationThrottled}

func c10GenDecay(rt *rapid.T, name string) float64 {
	return rapid.SampledFrom([]float64{0.1, 0.5, 0.9, 0.99}).Draw(rt, name)
}

func c10GenTopic(rt *rapid.T, skip bool) c10Topic {
	var tp c10Topic
	tp.SkipAtomic = skip
	tp.W = rapid.SampledFrom([]float64{1, 1, 0.5, 2, 0}).Draw(rt, "tw")
	zero := func(name string) bool { return skip && rapid.IntRange(0, 3).Draw(rt, name) == 0 } // partially specified set
	if !zero("z1") {
		tp.P1W = rapid.SampledFrom([]float64{0, 0.5, 1, 0.01}).Draw(rt, "p1w")
		tp.P1QuantumMs = rapid.SampledFrom([]int{1, 10, 100, 1000, 2500}).Draw(rt, "p1q")
		tp.P1Cap = rapid.SampledFrom([]float64{1, 3, 10, 1000}).Draw(rt, "p1c")
	}
	if !zero("z2") {
		tp.P2W = rapid.SampledFrom([]float64{0, 1, 2}).Draw(rt, "p2w")
		tp.P2Decay = c10GenDecay(rt, "p2d")
		tp.P2Cap = rapid.SampledFrom([]float64{1, 2, 5, 100}).Draw(rt, "p2c")
	}
	if !zero("z3") {
		tp.P3W = rapid.SampledFrom([]float64{0, -1, -0.5}).Draw(rt, "p3w")
		tp.P3Decay = c10GenDecay(rt, "p3d")
		tp.P3Cap = rapid.SampledFrom([]float64{1, 3, 10}).Draw(rt, "p3c")
		tp.P3Threshold = rapid.SampledFrom([]float64{0.5, 1, 2, 4}).Draw(rt, "p3t")
		tp.P3WindowMs = rapid.SampledFrom([]int{0, 5, 50, 1000}).Draw(rt, "p3win")
		tp.P3ActivationMs = rapid.SampledFrom([]int{1000, 1500, 3000}).Draw(rt, "p3act")
	}
	if !zero("z3b") {
		tp.P3bW = rapid.SampledFrom([]float64{0, -1, -2}).Draw(rt, "p3bw")
		tp.P3bDecay = c10GenDecay(rt, "p3bd")
	}
	if !zero("z4") {
		tp.P4W = rapid.SampledFrom([]float64{0, -1, -10}).Draw(rt, "p4w")
		tp.P4Decay = c10GenDecay(rt, "p4d")
	}
	return tp
}

func c10Gen(rt *rapid.T) c10Case {
	var c c10Case
	pr := &c.Params
	pr.SkipAtomic = rapid.Bool().Draw(rt, "skip")
	nt := rapid.IntRange(1, 3).Draw(rt, "ntopics")
	for i := 0; i < nt; i++ {
		pr.Topics = append(pr.Topics, c10GenTopic(rt, pr.SkipAtomic && rapid.Bool().Draw(rt, "tskip")))
	}
	pr.TopicScoreCap = rapid.SampledFrom([]float64{0, 0, 2, 10, 100}).Draw(rt, "tcap")
	pr.AppW = rapid.SampledFrom([]float64{0, 1, 1, 0.5}).Draw(rt, "appw")
	pr.IPW = rapid.SampledFrom([]float64{0, -1, -5}).Draw(rt, "ipw")
	pr.IPThreshold = rapid.IntRange(1, 3).Draw(rt, "ipt")
	if rapid.IntRange(0, 3).Draw(rt, "wl") == 0 {
		pr.Whitelist = []string{rapid.SampledFrom([]string{"1.1.1.0/24", "2001:db8:1::/64", "2.2.2.2/32"}).Draw(rt, "wlnet")}
	}
	pr.BehW = rapid.SampledFrom([]float64{0, -1, -3}).Draw(rt, "behw")
	pr.BehT = rapid.SampledFrom([]float64{0, 1, 2.5}).Draw(rt, "beht")
	pr.BehD = c10GenDecay(rt, "behd")
	pr.DecayToZero = rapid.SampledFrom([]float64{0.01, 0.1, 0.5}).Draw(rt, "dtz")
	pr.RetainMs = rapid.SampledFrom([]int{0, 2000, 10000, 600000}).Draw(rt, "retain")
	pr.SeenTTLMs = rapid.SampledFrom([]int{0, 3000, 30000}).Draw(rt, "seenttl")

	c.Peers = rapid.IntRange(1, 4).Draw(rt, "peers")
	n := rapid.IntRange(5, 70).Draw(rt, "nevents")
	// Construction over rejection: the generator follows a light abstract state (who is connected, who is in
	// which mesh, where each message is in its life cycle) and mostly draws operations that are enabled in it,
	// with arguments that make them meet (duplicates from mesh members of the message's topic, time steps around
	// the delivery window and the activation time). One operation in six is drawn blindly, as before; the
	// interpreter skips whatever the real pipeline could not produce.
	conn := map[int]bool{}
	mesh := map[[2]int]bool{}
	type gm struct{ topic, origin, state int }
	var gmsgs []gm
	blind := []string{"connect", "disconnect", "graft", "prune", "validate", "deliver", "reject", "prereject", "dup", "penalty", "tick",
		"adv", "gc", "setips", "refreships", "setparams", "appscore", "feedback"}
	pick := func(name string, xs []int) int { return xs[rapid.IntRange(0, len(xs)-1).Draw(rt, name)] }
	for i := 0; i < n; i++ {
		var ev c10Event
		ev.P = rapid.IntRange(0, c.Peers).Draw(rt, "p") // 0 = a peer the scorer never heard of / ourselves
		ev.T = rapid.IntRange(0, nt).Draw(rt, "t")      // nt = an unscored topic
		ev.M = rapid.IntRange(0, 7).Draw(rt, "m")
		if rapid.IntRange(0, 5).Draw(rt, "blind") == 0 {
			ev.Op = rapid.SampledFrom(blind).Draw(rt, "op")
		} else {
			var connected, disconnected []int
			for p := 1; p <= c.Peers; p++ {
				if conn[p] {
					connected = append(connected, p)
				} else {
					disconnected = append(disconnected, p)
				}
			}
			var validating, started []int
			for k, g := range gmsgs {
				if g.state == 1 {
					validating = append(validating, k)
				}
				if g.state >= 1 {
					started = append(started, k)
				}
			}
			var inMesh, notInMesh [][2]int
			for _, p := range connected {
				for t := 0; t < nt; t++ {
					if mesh[[2]int{p, t}] {
						inMesh = append(inMesh, [2]int{p, t})
					} else {
						notInMesh = append(notInMesh, [2]int{p, t})
					}
				}
			}
			type cand struct {
				op string
				w  int
			}
			cands := []cand{{"tick", 3}, {"adv", 4}, {"penalty", 1}, {"gc", 1}, {"appscore", 1}, {"prereject", 1}, {"feedback", 1}, {"setparams", 1}, {"refreships", 1}}
			if len(disconnected) > 0 {
				cands = append(cands, cand{"connect", 4})
			}
			if len(connected) > 0 {
				cands = append(cands, cand{"disconnect", 1}, cand{"setips", 1})
			}
			if len(notInMesh) > 0 {
				cands = append(cands, cand{"graft", 4})
			}
			if len(inMesh) > 0 {
				cands = append(cands, cand{"prune", 1})
			}
			if len(gmsgs) < 8 {
				cands = append(cands, cand{"validate", 3})
			}
			if len(validating) > 0 {
				cands = append(cands, cand{"deliver", 3}, cand{"reject", 1})
			}
			if len(started) > 0 {
				cands = append(cands, cand{"dup", 5})
			}
			tot := 0
			for _, cd := range cands {
				tot += cd.w
			}
			r := rapid.IntRange(0, tot-1).Draw(rt, "opw")
			for _, cd := range cands {
				if r < cd.w {
					ev.Op = cd.op
					break
				}
				r -= cd.w
			}
			switch ev.Op {
			case "connect":
				ev.P = pick("cp", disconnected)
			case "disconnect", "setips":
				ev.P = pick("dp", connected)
			case "graft":
				pt := notInMesh[rapid.IntRange(0, len(notInMesh)-1).Draw(rt, "gpt")]
				ev.P, ev.T = pt[0], pt[1]
			case "prune":
				pt := inMesh[rapid.IntRange(0, len(inMesh)-1).Draw(rt, "ppt")]
				ev.P, ev.T = pt[0], pt[1]
			case "validate":
				ev.M = len(gmsgs)
				if len(connected) > 0 && rapid.IntRange(0, 4).Draw(rt, "knownOrigin") > 0 {
					ev.P = pick("op", connected)
				}
				if rapid.IntRange(0, 5).Draw(rt, "scoredTopic") > 0 {
					ev.T = rapid.IntRange(0, nt-1).Draw(rt, "vt")
				}
			case "deliver", "reject":
				ev.M = pick("vm", validating)
			case "dup":
				ev.M = pick("sm", started)
				var members []int
				for _, p := range connected {
					if mesh[[2]int{p, gmsgs[ev.M].topic}] {
						members = append(members, p)
					}
				}
				if len(members) > 0 && rapid.IntRange(0, 3).Draw(rt, "fromMember") > 0 {
					ev.P = pick("mp", members)
				}
			}
		}
		// follow the abstract state (mirrors what the interpreter will accept)
		switch ev.Op {
		case "connect":
			if ev.P > 0 {
				conn[ev.P] = true
			}
		case "disconnect":
			if conn[ev.P] {
				conn[ev.P] = false
				for t := 0; t < nt; t++ {
					delete(mesh, [2]int{ev.P, t})
				}
			}
		case "graft":
			if conn[ev.P] && ev.T < nt {
				mesh[[2]int{ev.P, ev.T}] = true
			}
		case "prune":
			delete(mesh, [2]int{ev.P, ev.T})
		case "validate":
			if ev.M == len(gmsgs) {
				gmsgs = append(gmsgs, gm{ev.T, ev.P, 1})
			} else if ev.M < len(gmsgs) && gmsgs[ev.M].state == 0 {
				gmsgs[ev.M].state = 1
			}
		case "deliver", "reject":
			if ev.M < len(gmsgs) && gmsgs[ev.M].state == 1 {
				gmsgs[ev.M].state = 2
			}
		}
		switch ev.Op {
		case "adv":
			ev.Ms = rapid.OneOf(rapid.IntRange(0, 60), rapid.IntRange(0, 60), rapid.IntRange(0, 1200), rapid.IntRange(900, 3100), rapid.IntRange(0, 40000)).Draw(rt, "ms")
		case "penalty":
			ev.N = rapid.IntRange(1, 4).Draw(rt, "n")
		case "connect", "setips":
			k := rapid.IntRange(0, 2).Draw(rt, "nips")
			for j := 0; j < k; j++ {
				ev.IPs = append(ev.IPs, rapid.SampledFrom(c10IPPool).Draw(rt, "ip"))
			}
		case "appscore":
			ev.V = rapid.SampledFrom([]float64{-10, -1, -0.5, 0, 0.5, 1, 10}).Draw(rt, "v")
		case "reject":
			ev.Reason = rapid.SampledFrom(c10PipeReasons).Draw(rt, "reason")
		case "prereject":
			ev.Reason = rapid.SampledFrom(c10PreReasons).Draw(rt, "reason")
		case "setparams":
			ev.N = rapid.IntRange(0, 3).Draw(rt, "how") // 0 lower P2 cap, 1 lower P3 cap, 2 lower both, 3 raise both
		case "feedback":
			ev.N = rapid.IntRange(0, 1).Draw(rt, "kind")
		}
		c.Events = append(c.Events, ev)
	}
	c.Events = append(c.Events, c10Event{Op: "tick"}, c10Event{Op: "inspect"})
	return c
}

// ---------------------------------------------------------------------------------------------------
// building the parameters for the implementation

func c10TopicName(i int) string { return fmt.Sprintf("t%d", i) }

func (tp c10Topic) build() *TopicScoreParams {
	ms := func(n int) time.Duration { return time.Duration(n) * time.Millisecond }
	return &TopicScoreParams{
		SkipAtomicValidation: tp.SkipAtomic, TopicWeight: tp.W,
		TimeInMeshWeight: tp.P1W, TimeInMeshQuantum: ms(tp.P1QuantumMs), TimeInMeshCap: tp.P1Cap,
		FirstMessageDeliveriesWeight: tp.P2W, FirstMessageDeliveriesDecay: tp.P2Decay, FirstMessageDeliveriesCap: tp.P2Cap,
		MeshMessageDeliveriesWeight: tp.P3W, MeshMessageDeliveriesDecay: tp.P3Decay, MeshMessageDeliveriesCap: tp.P3Cap,
		MeshMessageDeliveriesThreshold: tp.P3Threshold, MeshMessageDeliveriesWindow: ms(tp.P3WindowMs), MeshMessageDeliveriesActivation: ms(tp.P3ActivationMs),
		MeshFailurePenaltyWeight: tp.P3bW, MeshFailurePenaltyDecay: tp.P3bDecay,
		InvalidMessageDeliveriesWeight: tp.P4W, InvalidMessageDeliveriesDecay: tp.P4Decay,
	}
}

func (pr c10Params) build(app func(peer.ID) float64) *PeerScoreParams {
	p := &PeerScoreParams{
		SkipAtomicValidation: pr.SkipAtomic, Topics: map[string]*TopicScoreParams{}, TopicScoreCap: pr.TopicScoreCap,
		AppSpecificScore: app, AppSpecificWeight: pr.AppW,
		IPColocationFactorWeight: pr.IPW, IPColocationFactorThreshold: pr.IPThreshold,
		BehaviourPenaltyWeight: pr.BehW, BehaviourPenaltyThreshold: pr.BehT, BehaviourPenaltyDecay: pr.BehD,
		DecayInterval: time.Second, DecayToZero: pr.DecayToZero,
		RetainScore: time.Duration(pr.RetainMs) * time.Millisecond, SeenMsgTTL: time.Duration(pr.SeenTTLMs) * time.Millisecond,
	}
	for _, w := range pr.Whitelist {
		_, n, err := net.ParseCIDR(w)
		if err == nil {
			p.IPColocationFactorWhitelist = append(p.IPColocationFactorWhitelist, n)
		}
	}
	for i, tp := range pr.Topics {
		p.Topics[c10TopicName(i)] = tp.build()
	}
	return p
}

// ---------------------------------------------------------------------------------------------------
// reference model (GossipSub v1.1 peer scoring, written from the specification)

type c10MTopic struct {
	inMesh       bool
	graft        time.Time
	meshSampled  time.Duration // time in mesh as of the last decay tick
	activeS      bool          // deficit penalty active as of the last decay tick
	p2, p3, p4   float64
	p3bLo, p3bHi float64 // sticky failure penalty; an interval while activation between ticks is undecided
}

type c10MPeer struct {
	known     bool // the scorer tracks it (connected or retained)
	connected bool
	expire    time.Time
	pen       float64
	ips       []string
	topics    map[int]*c10MTopic
}

type c10MRec struct {
	status    int // 0 unknown 1 valid 2 invalid 3 ignored 4 throttled
	validated time.Time
	peers     map[int]bool
	expire    time.Time
}

type c10Model struct {
	pr      c10Params
	tp      []c10Topic // current topic parameters (setparams changes caps)
	peers   map[int]*c10MPeer
	app     map[int]float64
	ipPeers map[string]map[int]bool
	recs    map[int]*c10MRec
	wl      []*net.IPNet
	labels  map[string]bool
}

func (m *c10Model) peer(p int) *c10MPeer {
	mp, ok := m.peers[p]
	if !ok {
		mp = &c10MPeer{topics: map[int]*c10MTopic{}}
		m.peers[p] = mp
	}
	return mp
}

// tstats mirrors "statistics exist only for scored topics, created on first use"
func (m *c10Model) tstats(mp *c10MPeer, t int) *c10MTopic {
	if t >= len(m.tp) {
		return nil
	}
	ts, ok := mp.topics[t]
	if !ok {
		ts = &c10MTopic{}
		mp.topics[t] = ts
	}
	return ts
}

func c10NormIPs(ips []string) []string {
	// what the scorer is specified to track for a peer: each non-loopback IP; for IPv6 also its /64
	var out []string
	for _, s := range ips {
		ip := net.ParseIP(s)
		if ip == nil || ip.IsLoopback() {
			continue
		}
		if ip.To4() != nil {
			out = append(out, ip.String())
		} else {
			out = append(out, ip.String(), ip.Mask(net.CIDRMask(64, 128)).String())
		}
	}
	return out
}

func (m *c10Model) setIPs(p int, mp *c10MPeer, ips []string) {
	for _, ip := range mp.ips {
		delete(m.ipPeers[ip], p)
	}
	mp.ips = ips
	for _, ip := range ips {
		if m.ipPeers[ip] == nil {
			m.ipPeers[ip] = map[int]bool{}
		}
		m.ipPeers[ip][p] = true
	}
}

func (m *c10Model) drop(p int) {
	mp := m.peers[p]
	if mp == nil {
		return
	}
	for _, ip := range mp.ips {
		delete(m.ipPeers[ip], p)
	}
	delete(m.peers, p)
}

func (m *c10Model) ipFactor(mp *c10MPeer) float64 {
	var r float64
	for _, ip := range mp.ips {
		white := false
		o := net.ParseIP(ip)
		for _, n := range m.wl {
			if n.Contains(o) {
				white = true
			}
		}
		if white {
			continue
		}
		if n := len(m.ipPeers[ip]); n > m.pr.IPThreshold {
			s := float64(n - m.pr.IPThreshold)
			r += s * s
		}
	}
	return r
}

// score evaluates the v1.1 function. contP1: time in mesh measured now instead of at the last tick.
// contAct: activation (and the sticky penalty that depended on it) judged continuously.
// Returns the score and the sum of the magnitudes of its terms (for the float tolerance).
func (m *c10Model) score(p int, now time.Time, contP1, contAct, noPenalties bool) (float64, float64) {
	mp, ok := m.peers[p]
	if !ok || !mp.known {
		return 0, 0
	}
	var sum, mag float64
	add := func(v float64) float64 { mag += math.Abs(v); return v }
	for t, ts := range mp.topics {
		tp := m.tp[t]
		var s float64
		if ts.inMesh && tp.P1QuantumMs != 0 {
			mt := ts.meshSampled
			if contP1 {
				mt = now.Sub(ts.graft)
			}
			p1 := float64(mt / (time.Duration(tp.P1QuantumMs) * time.Millisecond))
			if p1 > tp.P1Cap {
				p1 = tp.P1Cap
			}
			s += add(p1 * tp.P1W)
		}
		s += add(ts.p2 * tp.P2W)
		if !noPenalties {
			active := ts.activeS
			if contAct && ts.inMesh && now.Sub(ts.graft) > time.Duration(tp.P3ActivationMs)*time.Millisecond {
				active = true
			}
			if active && ts.p3 < tp.P3Threshold {
				d := tp.P3Threshold - ts.p3
				s += add(d * d * tp.P3W)
			}
			p3b := ts.p3bLo
			if contAct {
				p3b = ts.p3bHi
			}
			s += add(p3b * tp.P3bW)
			s += add(ts.p4 * ts.p4 * tp.P4W)
		}
		sum += s * tp.W
	}
	if m.pr.TopicScoreCap > 0 && sum > m.pr.TopicScoreCap {
		sum = m.pr.TopicScoreCap
		m.labels["topic-cap-hit"] = true
	}
	sum += add(m.app[p] * m.pr.AppW)
	if !noPenalties {
		if f := m.ipFactor(mp); f != 0 {
			sum += add(f * m.pr.IPW)
			m.labels["p6-surplus"] = true
		}
		if mp.pen > m.pr.BehT {
			e := mp.pen - m.pr.BehT
			sum += add(e * e * m.pr.BehW)
			m.labels["p7-excess"] = true
		}
	}
	return sum, mag
}

// bounds returns the interval of scores the statement allows right now.
func (m *c10Model) bounds(p int, now time.Time) (lo, hi, mag float64) {
	lo, hi = math.Inf(1), math.Inf(-1)
	for _, a := range []bool{false, true} {
		for _, b := range []bool{false, true} {
			s, g := m.score(p, now, a, b, false)
			lo, hi, mag = math.Min(lo, s), math.Max(hi, s), math.Max(mag, g)
		}
	}
	return
}

func (m *c10Model) stickyPenalty(ts *c10MTopic, tp c10Topic, now time.Time, requireMesh bool) {
	if requireMesh && !ts.inMesh {
		return
	}
	if ts.p3 >= tp.P3Threshold {
		return
	}
	d := tp.P3Threshold - ts.p3
	contActive := ts.activeS || (ts.inMesh && now.Sub(ts.graft) > time.Duration(tp.P3ActivationMs)*time.Millisecond)
	if ts.activeS {
		ts.p3bLo += d * d
		ts.p3bHi += d * d
		m.labels["p3b"] = true
	} else if contActive {
		ts.p3bHi += d * d // undecided between ticks
		m.labels["p3b-undecided"] = true
	}
}

func (m *c10Model) markFirst(p, t int) {
	mp, ok := m.peers[p]
	if !ok || !mp.known {
		return
	}
	ts := m.tstats(mp, t)
	if ts == nil {
		return
	}
	tp := m.tp[t]
	ts.p2++
	if ts.p2 > tp.P2Cap {
		ts.p2 = tp.P2Cap
		m.labels["p2-cap-hit"] = true
	}
	if ts.inMesh {
		ts.p3++
		if ts.p3 > tp.P3Cap {
			ts.p3 = tp.P3Cap
			m.labels["p3-cap-hit"] = true
		}
	}
}

func (m *c10Model) markDup(p, t int, validated time.Time, now time.Time) {
	mp, ok := m.peers[p]
	if !ok || !mp.known {
		return
	}
	ts := m.tstats(mp, t)
	if ts == nil || !ts.inMesh {
		return
	}
	tp := m.tp[t]
	if !validated.IsZero() && now.Sub(validated) > time.Duration(tp.P3WindowMs)*time.Millisecond {
		m.labels["dup-after-window"] = true
		return
	}
	if validated.IsZero() {
		m.labels["dup-before-validation"] = true
	} else {
		m.labels["dup-in-window"] = true
	}
	ts.p3++
	if ts.p3 > tp.P3Cap {
		ts.p3 = tp.P3Cap
		m.labels["p3-cap-hit"] = true
	}
}

func (m *c10Model) markInvalid(p, t int) {
	mp, ok := m.peers[p]
	if !ok || !mp.known {
		return
	}
	if ts := m.tstats(mp, t); ts != nil {
		ts.p4++
		m.labels["p4"] = true
	}
}

func (m *c10Model) rec(id int, now time.Time) *c10MRec {
	r, ok := m.recs[id]
	if !ok {
		ttl := time.Duration(m.pr.SeenTTLMs) * time.Millisecond
		if ttl == 0 {
			ttl = TimeCacheDuration
		}
		r = &c10MRec{peers: map[int]bool{}, expire: now.Add(ttl)}
		m.recs[id] = r
	}
	return r
}

// ---------------------------------------------------------------------------------------------------
// interpreter

type c10Msg struct {
	topic  int
	origin int
	state  int // 0 new, 1 validating, 2 done
	msg    map[int]*Message
}

func c10Run(t *testing.T, c c10Case) (res vfResult) {
	msg := vfBubble(t, func() { c10RunInBubble(c, &res) })
	if msg != "" {
		key := "C10/panic"
		if strings.Contains(msg, "integer divide by zero") {
			key = "C10/divide-by-zero"
		}
		res.violate(key, -1, "computing a score failed: %s", msg)
	}
	return
}

// c10NoPenalty returns a copy of the parameters with every penalty weight (P3, P3b, P4, P6, P7) zeroed.
func c10NoPenalty(p *PeerScoreParams) *PeerScoreParams {
	q := *p
	q.IPColocationFactorWeight, q.BehaviourPenaltyWeight = 0, 0
	q.Topics = map[string]*TopicScoreParams{}
	for k, v := range p.Topics {
		t := *v
		t.MeshMessageDeliveriesWeight, t.MeshFailurePenaltyWeight, t.InvalidMessageDeliveriesWeight = 0, 0, 0
		q.Topics[k] = &t
	}
	return &q
}

func c10PID(p int) peer.ID {
	if p == 0 {
		return vfPeer(40).ID // never connected
	}
	return vfPeer(p).ID
}

func c10RunInBubble(c c10Case, res *vfResult) {
	h := newVfHost(vfPeer(0))
	defer h.Close()
	m := &c10Model{pr: c.Params, tp: append([]c10Topic(nil), c.Params.Topics...), peers: map[int]*c10MPeer{}, app: map[int]float64{},
		ipPeers: map[string]map[int]bool{}, recs: map[int]*c10MRec{}, labels: map[string]bool{}}
	byID := map[peer.ID]int{}
	for p := 0; p <= c.Peers; p++ {
		byID[c10PID(p)] = p
	}
	params := c.Params.build(func(id peer.ID) float64 { return m.app[byID[id]] })
	if err := params.validate(); err != nil {
		res.Inconclusive = "generator produced parameters the library refuses: " + err.Error()
		return
	}
	for _, n := range params.IPColocationFactorWhitelist {
		m.wl = append(m.wl, n)
	}
	ps := newPeerScore(params, slog.Default())
	ps.host = h
	var snaps []map[peer.ID]*PeerScoreSnapshot
	ps.inspectEx = func(s map[peer.ID]*PeerScoreSnapshot) { snaps = append(snaps, s) }

	nt := len(c.Params.Topics)
	msgs := map[int]*c10Msg{}
	getMsg := func(ev c10Event) *c10Msg {
		mm, ok := msgs[ev.M]
		if !ok {
			mm = &c10Msg{topic: ev.T, origin: ev.P, msg: map[int]*Message{}}
			msgs[ev.M] = mm
		}
		return mm
	}
	wire := func(mm *c10Msg, id, from int) *Message {
		if x, ok := mm.msg[from]; ok {
			return x
		}
		tn := c10TopicName(mm.topic)
		x := &Message{Message: &pb.Message{From: []byte("author"), Seqno: []byte(fmt.Sprintf("%08d", id)), Topic: &tn, Data: []byte("d")}, ReceivedFrom: c10PID(from)}
		mm.msg[from] = x
		return x
	}

	check := func(step int, what string) {
		now := time.Now()
		for p := 0; p <= c.Peers; p++ {
			got := ps.Score(c10PID(p))
			if math.IsNaN(got) || math.IsInf(got, 0) {
				res.violate("C10/nan", step, "score of peer %d is %v after %s", p, got, what)
				continue
			}
			lo, hi, mag := m.bounds(p, now)
			tol := 1e-9 * (1 + mag)
			if got < lo-tol || got > hi+tol {
				res.violate("C10/score-mismatch", step, "after %s: peer %d scores %.12g, the v1.1 function of its history gives [%.12g, %.12g]", what, p, got, lo, hi)
			}
			// penalty components only ever lower the score: the same counters evaluated with every penalty
			// weight set to zero must not give less
			ps.Lock()
			saved := ps.params
			ps.params = c10NoPenalty(saved)
			without := ps.score(c10PID(p))
			ps.params = saved
			ps.Unlock()
			if got > without+tol {
				res.violate("C10/penalty-raises-score", step, "after %s: peer %d scores %.12g, but %.12g with all penalty weights zeroed", what, p, got, without)
			}
		}
		// counters stay within [0, cap]
		ps.Lock()
		for id, pst := range ps.peerStats {
			for tn, ts := range pst.topics {
				tp, ok := ps.params.Topics[tn]
				if !ok {
					continue
				}
				bad := func(v float64) bool { return v < 0 || math.IsNaN(v) }
				if bad(ts.firstMessageDeliveries) || bad(ts.meshMessageDeliveries) || bad(ts.meshFailurePenalty) || bad(ts.invalidMessageDeliveries) || bad(pst.behaviourPenalty) {
					res.violate("C10/counter-negative", step, "after %s: a counter of peer %d topic %s is negative or NaN", what, byID[id], tn)
				}
				if ts.firstMessageDeliveries > tp.FirstMessageDeliveriesCap || ts.meshMessageDeliveries > tp.MeshMessageDeliveriesCap {
					res.violate("C10/counter-over-cap", step, "after %s: peer %d topic %s first=%v (cap %v) mesh=%v (cap %v)", what, byID[id], tn,
						ts.firstMessageDeliveries, tp.FirstMessageDeliveriesCap, ts.meshMessageDeliveries, tp.MeshMessageDeliveriesCap)
				}
			}
		}
		ps.Unlock()
	}

	for step, ev := range c.Events {
		now := time.Now()
		pid := c10PID(ev.P)
		what := ev.Op
		switch ev.Op {
		case "adv":
			time.Sleep(time.Duration(ev.Ms) * time.Millisecond)
		case "connect":
			if ev.P == 0 {
				continue
			}
			mp := m.peer(ev.P)
			if mp.connected {
				continue
			}
			var specs []vfConnSpec
			seen := map[string]bool{}
			v6 := false
			for _, ip := range ev.IPs {
				is6 := containsColon(ip)
				if seen[ip] || (is6 && v6) { // one connection per address, one IPv6 address per peer (see DESIGN C10)
					continue
				}
				seen[ip], v6 = true, v6 || is6
				specs = append(specs, vfConnSpec{IP: ip, Stream: true, Out: len(specs) == 0})
			}
			h.net.connect(pid, GossipSubID_v11, specs)
			ps.OnNewOutboundStream(pid, GossipSubID_v11)
			if mp.known {
				m.labels["reconnect-retained"] = true
			}
			mp.known, mp.connected = true, true
			var ips []string
			for _, sp := range specs {
				ips = append(ips, sp.IP)
			}
			m.setIPs(ev.P, mp, c10NormIPs(ips))
		case "setips":
			mp := m.peers[ev.P]
			if mp == nil || !mp.connected {
				continue
			}
			var specs []vfConnSpec
			seen := map[string]bool{}
			v6 := false
			for _, ip := range ev.IPs {
				is6 := containsColon(ip)
				if seen[ip] || (is6 && v6) {
					continue
				}
				seen[ip], v6 = true, v6 || is6
				specs = append(specs, vfConnSpec{IP: ip, Stream: true})
			}
			h.net.connect(pid, GossipSubID_v11, specs) // takes effect at the next IP refresh
		case "refreships":
			ps.refreshIPs()
			for p, mp := range m.peers {
				if !mp.connected {
					continue
				}
				var raw []string
				for _, cn := range h.net.ConnsToPeer(c10PID(p)) {
					a := cn.(*vfConn).addr
					if v, err := a.ValueForProtocol(4); err == nil { // ip4
						raw = append(raw, v)
					} else if v, err := a.ValueForProtocol(41); err == nil { // ip6
						raw = append(raw, v)
					}
				}
				m.setIPs(p, mp, c10NormIPs(raw))
			}
		case "disconnect":
			mp := m.peers[ev.P]
			if mp == nil || !mp.connected {
				continue
			}
			lo, hi, _ := m.bounds(ev.P, now)
			h.net.setConns(pid, nil)
			ps.OnClosedOutboundStream(pid)
			ps.Lock()
			_, kept := ps.peerStats[pid]
			ps.Unlock()
			retain := false
			switch {
			case lo > 0 && hi > 0:
				retain = false
			case lo <= 0 && hi <= 0:
				retain = true
			default:
				retain = kept // the statement leaves it open between ticks: follow the implementation
				m.labels["retention-undecided"] = true
			}
			if kept != retain {
				res.violate("C10/retention", step, "peer %d disconnected with score in [%g, %g]: retained=%v, the statement says %v (non-positive scores are retained, positive ones dropped)", ev.P, lo, hi, kept, retain)
			}
			if !retain {
				m.drop(ev.P)
			} else {
				m.labels["retained"] = true
				for t, ts := range mp.topics {
					ts.p2 = 0
					m.stickyPenalty(ts, m.tp[t], now, true)
					ts.inMesh = false
				}
				mp.connected = false
				mp.expire = now.Add(time.Duration(c.Params.RetainMs) * time.Millisecond)
			}
		case "graft":
			mp := m.peers[ev.P]
			if mp == nil || !mp.connected || ev.T >= nt {
				// the router grafts only connected peers; unscored topics carry no statistics
				if mp != nil && mp.connected {
					ps.Graft(pid, c10TopicName(ev.T))
				}
				continue
			}
			ts := m.tstats(mp, ev.T)
			if ts.inMesh {
				continue
			}
			ps.Graft(pid, c10TopicName(ev.T))
			if ts.p3bHi > 0 || ts.p4 > 0 {
				m.labels["regraft-with-history"] = true
			}
			ts.inMesh, ts.graft, ts.meshSampled, ts.activeS = true, now, 0, false
		case "prune":
			mp := m.peers[ev.P]
			if mp == nil || !mp.connected || ev.T >= nt {
				continue
			}
			ts := m.tstats(mp, ev.T)
			if !ts.inMesh {
				continue // a PRUNE for a peer outside the mesh is outside the generated domain (DESIGN C10)
			}
			ps.Prune(pid, c10TopicName(ev.T))
			m.stickyPenalty(ts, m.tp[ev.T], now, false)
			ts.inMesh = false
		case "validate":
			mm := getMsg(ev)
			if mm.state != 0 {
				continue
			}
			mm.state = 1
			ps.ValidateMessage(wire(mm, ev.M, mm.origin))
			m.rec(ev.M, now)
		case "deliver":
			mm, ok := msgs[ev.M]
			if !ok || mm.state != 1 {
				continue
			}
			mm.state = 2
			ps.DeliverMessage(wire(mm, ev.M, mm.origin))
			m.markFirst(mm.origin, mm.topic)
			r := m.rec(ev.M, now)
			if r.status == 0 {
				r.status, r.validated = 1, now
				early := make([]int, 0, len(r.peers))
				for p := range r.peers {
					early = append(early, p)
				}
				sort.Ints(early)
				for _, p := range early {
					if p != mm.origin {
						m.markDup(p, mm.topic, time.Time{}, now)
					}
				}
			}
		case "reject":
			mm, ok := msgs[ev.M]
			if !ok || mm.state != 1 {
				continue
			}
			mm.state = 2
			ps.RejectMessage(wire(mm, ev.M, mm.origin), ev.Reason)
			r := m.rec(ev.M, now)
			if r.status == 0 {
				switch ev.Reason {
				case RejectValidationThrottled:
					r.status, r.peers = 4, map[int]bool{}
				case RejectValidationIgnored:
					r.status, r.peers = 3, map[int]bool{}
				default:
					r.status = 2
					m.markInvalid(mm.origin, mm.topic)
					for p := range r.peers {
						m.markInvalid(p, mm.topic)
					}
					r.peers = map[int]bool{}
				}
			}
			what = "reject(" + ev.Reason + ")"
		case "prereject":
			// a copy refused before it enters the pipeline: no delivery record is involved
			mm := getMsg(ev)
			ps.RejectMessage(wire(mm, ev.M, ev.P), ev.Reason)
			switch ev.Reason {
			case RejectMissingSignature, RejectInvalidSignature, RejectUnexpectedSignature, RejectUnexpectedAuthInfo, RejectSelfOrigin:
				m.markInvalid(ev.P, mm.topic)
			}
			what = "reject(" + ev.Reason + ")"
		case "dup":
			mm, ok := msgs[ev.M]
			if !ok || mm.state == 0 {
				continue // a duplicate is only ever traced for an ID that entered validation
			}
			ps.DuplicateMessage(wire(mm, ev.M, ev.P))
			r := m.rec(ev.M, now)
			if r.peers[ev.P] {
				break // a peer's duplicate of one message counts once
			}
			switch r.status {
			case 0:
				r.peers[ev.P] = true
			case 1:
				r.peers[ev.P] = true
				m.markDup(ev.P, mm.topic, r.validated, now)
			case 2:
				m.markInvalid(ev.P, mm.topic)
			}
		case "penalty":
			ps.AddPenalty(pid, ev.N)
			if mp := m.peers[ev.P]; mp != nil && mp.known {
				mp.pen += float64(ev.N)
			}
		case "tick":
			ps.refreshScores()
			for p, mp := range m.peers {
				if !mp.known {
					continue
				}
				if !mp.connected {
					if now.After(mp.expire) {
						m.drop(p)
						m.labels["retention-expired"] = true
					}
					continue
				}
				for t, ts := range mp.topics {
					tp := m.tp[t]
					dz := func(v *float64, d float64) {
						*v *= d
						if *v < c.Params.DecayToZero {
							if *v > 0 {
								m.labels["decay-to-zero"] = true
							}
							*v = 0
						}
					}
					dz(&ts.p2, tp.P2Decay)
					dz(&ts.p3, tp.P3Decay)
					dz(&ts.p3bLo, tp.P3bDecay)
					dz(&ts.p3bHi, tp.P3bDecay)
					dz(&ts.p4, tp.P4Decay)
					if ts.inMesh {
						ts.meshSampled = now.Sub(ts.graft)
						if ts.meshSampled > time.Duration(tp.P3ActivationMs)*time.Millisecond {
							if !ts.activeS {
								m.labels["activation"] = true
							}
							ts.activeS = true
						}
					}
				}
				mp.pen *= c.Params.BehD
				if mp.pen < c.Params.DecayToZero {
					mp.pen = 0
				}
			}
		case "gc":
			ps.gcDeliveryRecords()
			for id, r := range m.recs {
				if now.After(r.expire) {
					delete(m.recs, id)
					m.labels["record-expired"] = true
				}
			}
		case "setparams":
			if ev.T >= nt {
				continue
			}
			tp := m.tp[ev.T]
			switch ev.N {
			case 0:
				tp.P2Cap = math.Max(tp.P2Cap/2, 0.5)
			case 1:
				tp.P3Cap = math.Max(tp.P3Cap/2, 0.5)
			case 2:
				tp.P2Cap, tp.P3Cap = math.Max(tp.P2Cap/2, 0.5), math.Max(tp.P3Cap/2, 0.5)
			case 3:
				tp.P2Cap, tp.P3Cap = tp.P2Cap*2, tp.P3Cap*2
			}
			np := tp.build()
			if err := np.validate(); err != nil {
				continue
			}
			old := m.tp[ev.T]
			if err := ps.SetTopicScoreParams(c10TopicName(ev.T), np); err != nil {
				res.violate("C10/setparams-error", step, "SetTopicScoreParams: %v", err)
			}
			m.tp[ev.T] = tp
			if tp.P2Cap < old.P2Cap || tp.P3Cap < old.P3Cap {
				for _, mp := range m.peers {
					if ts, ok := mp.topics[ev.T]; ok {
						if ts.p2 > tp.P2Cap {
							ts.p2 = tp.P2Cap
							m.labels["recap"] = true
						}
						if ts.p3 > tp.P3Cap {
							ts.p3 = tp.P3Cap
							m.labels["recap"] = true
						}
					}
				}
			}
		case "appscore":
			m.app[ev.P] = ev.V
		case "feedback":
			// the documented application feedback API (PubSub.PeerFeedback) feeds these two markers
			ps.Lock()
			if ev.N == 0 {
				ps.markFirstMessageDelivery(pid, c10TopicName(ev.T))
			} else {
				ps.markInvalidMessageDelivery(pid, c10TopicName(ev.T))
			}
			ps.Unlock()
			if ev.N == 0 {
				m.markFirst(ev.P, ev.T)
			} else {
				m.markInvalid(ev.P, ev.T)
			}
		case "inspect":
			snaps = nil
			ps.inspectScoresExtended()
			synctest.Wait()
			if len(snaps) != 1 {
				res.violate("C10/inspect", step, "extended inspector called %d times", len(snaps))
				break
			}
			snap := snaps[0]
			for p, mp := range m.peers {
				if !mp.known {
					continue
				}
				s, ok := snap[c10PID(p)]
				if !ok {
					res.violate("C10/inspect", step, "tracked peer %d missing from the inspector snapshot", p)
					continue
				}
				close := func(a, b float64) bool { return math.Abs(a-b) <= 1e-9*(1+math.Abs(a)+math.Abs(b)) }
				if !close(s.BehaviourPenalty, mp.pen) || !close(s.AppSpecificScore, m.app[p]) || !close(s.IPColocationFactor, m.ipFactor(mp)) {
					res.violate("C10/inspect-mismatch", step, "peer %d: inspector says behaviour=%g app=%g ip=%g, history says %g %g %g", p,
						s.BehaviourPenalty, s.AppSpecificScore, s.IPColocationFactor, mp.pen, m.app[p], m.ipFactor(mp))
				}
				for t, ts := range mp.topics {
					st := s.Topics[c10TopicName(t)]
					if st == nil {
						// statistics are created lazily; an absent entry means "all zero, not in mesh"
						if ts.p2 != 0 || ts.p3 != 0 || ts.p4 != 0 || ts.inMesh {
							res.violate("C10/inspect-mismatch", step, "peer %d topic %d missing from snapshot although its history gives first=%g mesh=%g invalid=%g inMesh=%v", p, t, ts.p2, ts.p3, ts.p4, ts.inMesh)
						}
						continue
					}
					if !close(st.FirstMessageDeliveries, ts.p2) || !close(st.MeshMessageDeliveries, ts.p3) || !close(st.InvalidMessageDeliveries, ts.p4) {
						res.violate("C10/inspect-mismatch", step, "peer %d topic %d: inspector first=%g mesh=%g invalid=%g, history gives %g %g %g", p, t,
							st.FirstMessageDeliveries, st.MeshMessageDeliveries, st.InvalidMessageDeliveries, ts.p2, ts.p3, ts.p4)
					}
					if ts.inMesh && st.TimeInMesh != ts.meshSampled && st.TimeInMesh != now.Sub(ts.graft) {
						res.violate("C10/inspect-mismatch", step, "peer %d topic %d: inspector time in mesh %v, history gives %v (sampled) / %v (now)", p, t, st.TimeInMesh, ts.meshSampled, now.Sub(ts.graft))
					}
				}
			}
			for id := range snap {
				if mp := m.peers[byID[id]]; mp == nil || !mp.known {
					res.violate("C10/retention", step, "inspector still lists peer %d which should have been dropped", byID[id])
				}
			}
		}
		check(step, what)
		if len(res.Viols) > 0 {
			return
		}
	}
	n := 0
	for l := range m.labels {
		res.label(l)
		n++
	}
	res.NT = n >= 2
}

func TestVfC10Score(t *testing.T) {
	vfCheck(t, "C10", c10Gen, c10Run)
}
